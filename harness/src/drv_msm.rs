//! C10: MSM messages with chosen satellite sets / signal cells in chosen orders, and each class
//! of invalid input, for all MSM message types.  Masks are read from the frame at the payload
//! bit offsets the standard fixes (73 / 137 / 169).

use crate::drv_frame::digest;
use crate::drv_sig::{CELL_MASK_OFF, SAT_MASK_OFF, SIG_MASK_OFF};
use crate::msgen::*;
use crate::special_msm::*;
use crate::util::*;
use crate::value::*;
use rand::rngs::StdRng;
use rand::Rng;
use rtcm_rs::prelude::*;
use serde_json::{json, Value as J};

fn bitsj(f: &[u8], off: usize, n: usize) -> J {
    J::Array(
        (0..n)
            .map(|k| {
                let g = 24 + off + k;
                J::from((f[g / 8] >> (7 - g % 8)) & 1)
            })
            .collect(),
    )
}

/// digest of a row without its key fields
fn row_digest(row: &V) -> String {
    let mut w = row.clone();
    if let V::Struct(_, fs) = &mut w {
        fs.retain(|(k, _)| k != "satellite_id" && k != "signal_id");
    }
    digest(&w.canon().to_string())
}
fn sat_rows(v: &V) -> J {
    let rows = v.field("data_segment").and_then(|d| d.field("satellite_data")).and_then(|s| s.as_seq().cloned()).unwrap_or_default();
    J::Array(rows.iter().map(|r| json!([r.field("satellite_id").and_then(|x| x.as_i128()).unwrap_or(-1) as i64, row_digest(r)])).collect())
}
fn cell_rows(v: &V) -> J {
    let rows = v.field("data_segment").and_then(|d| d.field("signal_data")).and_then(|s| s.as_seq().cloned()).unwrap_or_default();
    J::Array(
        rows.iter()
            .map(|r| {
                let (b, a) = r.field("signal_id").map(crate::special_msm::sig_of).unwrap_or((-1, -1));
                json!([r.field("satellite_id").and_then(|x| x.as_i128()).unwrap_or(-1) as i64, b, a, row_digest(r)])
            })
            .collect(),
    )
}

fn shuffle<T>(r: &mut StdRng, xs: &mut Vec<T>) {
    for i in (1..xs.len()).rev() {
        let j = r.gen_range(0..=i);
        xs.swap(i, j);
    }
}

fn emit_case(r: &mut StdRng, out: &mut Out, num: u16, g: &str, t: &MsmTemplates, sats: Vec<u8>, cells: Vec<(u8, u8, char)>, class: &str) {
    let m = match msm_message(r, t, &sats, &cells) {
        Ok(m) => m,
        Err(_) => return, // e.g. more rows than the containers hold: not constructible through the API
    };
    let v0 = msg_to_v(&m);
    let res = guarded(|| MessageBuilder::new().build_message(&m).map(|f| f.to_vec()));
    let lib_valid: Vec<u8> = cells.iter().map(|c| is_valid_sig(g, c.1, c.2) as u8).collect();
    let mut e = json!({"ev": "Msm", "number": num, "gnss": g, "class": class, "sats": sat_rows(&v0), "cells": cell_rows(&v0), "lib_valid": lib_valid});
    match res {
        Ok(Ok(f)) => {
            e["out"] = json!("ok");
            e["satmask"] = bitsj(&f, SAT_MASK_OFF, 64);
            e["sigmask"] = bitsj(&f, SIG_MASK_OFF, 32);
            let ns = (0..64).filter(|k| (f[(24 + SAT_MASK_OFF + k) / 8] >> (7 - (24 + SAT_MASK_OFF + k) % 8)) & 1 == 1).count();
            let ng = (0..32).filter(|k| (f[(24 + SIG_MASK_OFF + k) / 8] >> (7 - (24 + SIG_MASK_OFF + k) % 8)) & 1 == 1).count();
            let nc = (ns * ng).min((f.len() - 6) * 8 - CELL_MASK_OFF.min((f.len() - 6) * 8));
            e["cellmask"] = bitsj(&f, CELL_MASK_OFF, nc);
            match guarded(|| decode_frame(&f)) {
                Ok(Some(d)) if d.number() == Some(num) => {
                    let dv = msg_to_v(&d);
                    e["dec"] = json!("typed");
                    e["dec_sats"] = sat_rows(&dv);
                    e["dec_cells"] = cell_rows(&dv);
                }
                Ok(Some(_)) => e["dec"] = json!("other"),
                _ => e["dec"] = json!("fail"),
            }
        }
        Ok(Err(er)) => e["out"] = json!(format!("err:{:?}", er)),
        Err(p) => e["out"] = json!(format!("panic:{}", p)),
    }
    out.emit(e);
}

pub fn rec_msm(a: &Args, out: &mut Out) {
    let mut r = rng(a.seed(), 10);
    let per_type = a.num("per_type", 30) as usize;
    for (g, base) in MSM_GNSS {
        let sigs = valid_sigs(g);
        for lvl in 1..=7u16 {
            let num = base + lvl;
            let t = match msm_templates(&mut r, num) {
                Some(t) => t,
                None => continue,
            };
            for k in 0..per_type {
                // ---- an admissible (S, G, C): every satellite and signal used, |S|*|G| <= 64
                // every 10th case uses ALL recognised signals of the constellation (up to 19 for Galileo)
                let ng = if k % 10 == 5 { sigs.len() } else if k % 5 == 0 { sigs.len().min(r.gen_range(1..=8)) } else { r.gen_range(1..=sigs.len().min(6)) };
                let mut gs = sigs.clone();
                shuffle(&mut r, &mut gs);
                gs.truncate(ng);
                let max_s = 64 / ng;
                let ns = match k % 4 {
                    0 => max_s,
                    1 => 1,
                    _ => r.gen_range(1..=max_s),
                };
                let mut all: Vec<u8> = (1..=64).collect();
                shuffle(&mut r, &mut all);
                let mut sats: Vec<u8> = all[..ns].to_vec();
                if k % 7 == 0 && !sats.contains(&64) {
                    sats[0] = 64;
                }
                if k % 7 == 1 && !sats.contains(&1) {
                    sats[0] = 1;
                }
                let dens = [0.05, 0.3, 0.6, 1.0][k % 4];
                let mut cells: Vec<(u8, u8, char)> = vec![];
                for s in &sats {
                    for sg in &gs {
                        if r.gen::<f64>() < dens {
                            cells.push((*s, sg.0, sg.1));
                        }
                    }
                }
                // make sure every satellite and every signal is used
                for (i, s) in sats.iter().enumerate() {
                    if !cells.iter().any(|c| c.0 == *s) {
                        let sg = gs[i % ng];
                        cells.push((*s, sg.0, sg.1));
                    }
                }
                for sg in &gs {
                    if !cells.iter().any(|c| (c.1, c.2) == *sg) {
                        cells.push((sats[0], sg.0, sg.1));
                    }
                }
                cells.sort();
                cells.dedup();
                if cells.len() > 64 {
                    cells.truncate(64);
                    let used: Vec<u8> = cells.iter().map(|c| c.0).collect();
                    sats.retain(|s| used.contains(s));
                }
                // orders of the two lists: six modes, incl. "satellites ascending but signals inside a satellite not"
                let pos_of = |c: &(u8, u8, char)| sigs.iter().position(|s| (s.0, s.1) == (c.1, c.2)).unwrap_or(99);
                cells.sort_by_key(|c| (c.0, pos_of(c)));
                sats.sort();
                match k % 6 {
                    0 => {}
                    1 => {
                        sats.reverse();
                        cells.reverse();
                    }
                    2 => {
                        shuffle(&mut r, &mut sats);
                        shuffle(&mut r, &mut cells);
                    }
                    3 => {
                        // satellites ascending, signals of each satellite descending
                        cells.sort_by_key(|c| (c.0 as i32, -(pos_of(c) as i32)));
                    }
                    4 => {
                        // satellites ascending, signals of each satellite shuffled; satellite rows shuffled
                        shuffle(&mut r, &mut cells);
                        cells.sort_by_key(|c| c.0);
                        shuffle(&mut r, &mut sats);
                    }
                    _ => {
                        // cells ordered by signal first, then satellite
                        cells.sort_by_key(|c| (pos_of(c), c.0));
                    }
                }
                emit_case(&mut r, out, num, g, &t, sats.clone(), cells.clone(), "admissible");
                // ---- one broken precondition derived from the admissible case
                let s0 = sats[0];
                let c0 = cells[0];
                match k % 9 {
                    0 => {
                        let bad = *pick(&mut r, &[0u8, 65, 100, 255]);
                        let mut s2 = sats.clone();
                        s2.push(bad);
                        let mut c2 = cells.clone();
                        c2.push((bad, c0.1, c0.2));
                        emit_case(&mut r, out, num, g, &t, s2, c2.clone(), "bad-satellite");
                        // the bad id only in a cell (the satellite rows are all valid), and only in a satellite row
                        if c2.len() <= 64 {
                            emit_case(&mut r, out, num, g, &t, sats.clone(), c2, "bad-satellite");
                        }
                        let mut s3 = sats.clone();
                        s3.insert(0, bad);
                        emit_case(&mut r, out, num, g, &t, s3, cells.clone(), "bad-satellite");
                    }
                    1 => {
                        let mut c2 = cells.clone();
                        c2.push((s0, 9, '?'));
                        emit_case(&mut r, out, num, g, &t, sats.clone(), c2, "bad-signal");
                    }
                    2 => {
                        let mut s2 = sats.clone();
                        s2.push(s0);
                        emit_case(&mut r, out, num, g, &t, s2, cells.clone(), "dup-satellite");
                    }
                    3 => {
                        let mut c2 = cells.clone();
                        c2.push(c0);
                        if c2.len() <= 64 {
                            emit_case(&mut r, out, num, g, &t, sats.clone(), c2, "dup-cell");
                        }
                        // a duplicate that makes the NUMBER of cell rows equal to the size of the mask grid (one cell of the
                        // full grid missing, another listed twice), for several grid shapes
                        for (ns2, ng2) in [(2usize, 2usize), (3, 2), (2, 3), (4, 4), (1, 2)] {
                            if sigs.len() < ng2 {
                                continue;
                            }
                            let s2: Vec<u8> = (0..ns2).map(|i| 3 + 7 * i as u8).collect();
                            let mut c2: Vec<(u8, u8, char)> = vec![];
                            for s in &s2 {
                                for sg in sigs.iter().take(ng2) {
                                    c2.push((*s, sg.0, sg.1));
                                }
                            }
                            let last = c2.pop().unwrap(); // drop the last cell of the grid ...
                            let dup = c2[r.gen_range(0..c2.len())];
                            c2.push(dup); // ... and list another one twice
                            let _ = last;
                            if k % 2 == 0 {
                                shuffle(&mut r, &mut c2);
                            }
                            emit_case(&mut r, out, num, g, &t, s2, c2, "dup-cell");
                        }
                    }
                    4 => {
                        // satellite row without cells
                        let extra = (1..=64u8).find(|x| !sats.contains(x));
                        if let Some(x) = extra {
                            let mut s2 = sats.clone();
                            s2.push(x);
                            emit_case(&mut r, out, num, g, &t, s2, cells.clone(), "sat-without-cell");
                        }
                    }
                    5 => {
                        // cell without satellite row
                        let extra = (1..=64u8).find(|x| !sats.contains(x));
                        if let (Some(x), true) = (extra, cells.len() < 64) {
                            let mut c2 = cells.clone();
                            c2.push((x, c0.1, c0.2));
                            emit_case(&mut r, out, num, g, &t, sats.clone(), c2, "cell-without-sat");
                        }
                    }
                    6 => {
                        // more than 64 mask cells: many satellites x several signals, sparse cells
                        let ng2 = sigs.len().min(3).max(1);
                        let ns2 = 64 / ng2 + 1;
                        if ng2 >= 2 {
                            let s2: Vec<u8> = (1..=ns2 as u8).collect();
                            let mut c2 = vec![];
                            for (i, s) in s2.iter().enumerate() {
                                let sg = sigs[i % ng2];
                                c2.push((*s, sg.0, sg.1));
                            }
                            emit_case(&mut r, out, num, g, &t, s2, c2, "too-many-cells");
                        }
                    }
                    7 => {
                        emit_case(&mut r, out, num, g, &t, vec![], vec![], "empty");
                        // as many satellite rows as the cells name satellites, but not the same ones
                        let extra = (1..=64u8).rev().find(|x| !sats.contains(x));
                        if let Some(x) = extra {
                            let mut s2 = sats.clone();
                            let i = r.gen_range(0..s2.len());
                            s2[i] = x;
                            emit_case(&mut r, out, num, g, &t, s2, cells.clone(), "sat-mismatch-same-count");
                            // ... and the other way round: a cell moved to a satellite that has no row
                            if sats.len() >= 2 {
                                let victim = sats[sats.len() - 1];
                                let c2: Vec<(u8, u8, char)> = cells.iter().map(|c| if c.0 == victim { (x, c.1, c.2) } else { *c }).collect();
                                emit_case(&mut r, out, num, g, &t, sats.clone(), c2, "sat-mismatch-same-count");
                            }
                        }
                        // grids of 256 and more mask cells (products that do not fit 8 bits)
                        for (ns2, ng2) in [(64usize, 4usize), (32, 8), (43, 6), (64, 5), (64, 32)] {
                            if sigs.len() >= ng2 && (k / 9) % 5 == [4usize, 8, 6, 5, 32].iter().position(|x| *x == ng2).unwrap_or(0) {
                                let s2: Vec<u8> = (1..=ns2 as u8).collect();
                                let c2: Vec<(u8, u8, char)> = s2.iter().enumerate().map(|(i, s)| (*s, sigs[i % ng2].0, sigs[i % ng2].1)).collect();
                                emit_case(&mut r, out, num, g, &t, s2, c2, "too-many-cells");
                            }
                        }
                    }
                    _ => {
                        emit_case(&mut r, out, num, g, &t, sats.clone(), vec![], "no-cells");
                    }
                }
            }
        }
    }
}
