//! C08 / C11: field-level drivers over the generated field table.  The heavy enumeration runs
//! here; what is recorded are lossless observations (sets defined purely by the implementation's
//! outputs) and raw events, which TLC judges.

use crate::drv_bits::bits_of;
use crate::drv_decode::BitW;
use crate::fieldlib::*;
use crate::frames::*;
use crate::generated::field_table;
use crate::msgen::decode_frame;
use crate::util::*;
use rand::Rng;
use rtcm_rs::prelude::*;
use serde_json::{json, Value as J};
use std::sync::atomic::{AtomicUsize, Ordering};
use std::sync::Mutex;

fn pat_bits(p: u64, w: usize) -> J {
    bits_of(p as i128, w as u32)
}

struct Chunk {
    fi: usize,
    c: u64,
    b: usize,
    stride: u64,
}
struct ChunkRes {
    bad: Vec<u64>,
    absent: Vec<u64>,
    nonfinite: Vec<u64>,
    tried: u64,
}

fn sweep_chunk(f: &FieldFns, ch: &Chunk) -> ChunkRes {
    let lo = ch.c << ch.b;
    let hi = lo + (1u64 << ch.b);
    let mut r = ChunkRes { bad: vec![], absent: vec![], nonfinite: vec![], tried: 0 };
    let mut p = lo;
    while p < hi {
        let o = (f.rt)(p);
        r.tried += 1;
        if o.dec_err || o.enc_err || o.n != f.w || o.q != p {
            if r.bad.len() < 64 {
                r.bad.push(p);
            }
        }
        if o.absent && r.absent.len() < 64 {
            r.absent.push(p);
        }
        if !o.finite && r.nonfinite.len() < 64 {
            r.nonfinite.push(p);
        }
        p += ch.stride;
    }
    r
}

pub fn rec_fields(a: &Args, out: &mut Out) {
    let table = field_table();
    let full_w = a.num("full_w", 24) as usize; // exhaustive up to this width
    let sample_bits = a.num("sample_bits", 22) as usize; // wider fields up to 32 bits: 2^sample_bits patterns on a stride
    let threads = a.num("threads", 12) as usize;
    let mut r = rng(a.seed(), 8);
    // ---- range observations
    let mut chunks: Vec<Chunk> = vec![];
    let sweeps = a.num("sweeps", 1) == 1; // 0: only the raw per-pattern events (cheap run for the second build profile)
    for (fi, f) in table.iter().enumerate() {
        if sweeps && f.w <= 32 {
            let b = if f.w <= 16 { f.w } else { (f.w - 8).max(16) };
            let nch = 1u64 << (f.w - b);
            let stride = if f.w <= full_w || b <= sample_bits.saturating_sub(f.w - b) { 1 } else { 1u64 << (b - (sample_bits - (f.w - b)).min(b)) };
            for c in 0..nch {
                chunks.push(Chunk { fi, c, b, stride });
            }
        }
    }
    let next = AtomicUsize::new(0);
    let results: Mutex<Vec<Option<ChunkRes>>> = Mutex::new((0..chunks.len()).map(|_| None).collect());
    std::thread::scope(|s| {
        for _ in 0..threads {
            s.spawn(|| loop {
                let i = next.fetch_add(1, Ordering::SeqCst);
                if i >= chunks.len() {
                    break;
                }
                let res = sweep_chunk(&table[chunks[i].fi], &chunks[i]);
                results.lock().unwrap()[i] = Some(res);
            });
        }
    });
    let results = results.into_inner().unwrap();
    let mut last_fi = usize::MAX;
    for (i, ch) in chunks.iter().enumerate() {
        let f = &table[ch.fi];
        if ch.fi != last_fi {
            out.emit(json!({"ev": "FieldBegin", "id": f.id, "w": f.w}));
            last_fi = ch.fi;
        }
        let res = results[i].as_ref().unwrap();
        out.emit(json!({"ev": "FieldSweep", "id": f.id, "w": f.w, "chunk": ch.c, "chunkbits": ch.b, "stride": ch.stride, "tried": res.tried,
            "bad": res.bad.iter().map(|p| pat_bits(*p, f.w)).collect::<Vec<_>>(),
            "absent": res.absent.iter().map(|p| pat_bits(*p, f.w)).collect::<Vec<_>>(),
            "nonfinite": res.nonfinite.iter().map(|p| pat_bits(*p, f.w)).collect::<Vec<_>>()}));
        let last_of_field = i + 1 == chunks.len() || chunks[i + 1].fi != ch.fi;
        if last_of_field {
            out.emit(json!({"ev": "FieldEnd", "id": f.id, "w": f.w, "chunkbits": ch.b}));
        }
    }
    // ---- raw events: boundaries, one-hot and seeded patterns for every field (all patterns when w <= 8)
    let samples = a.num("samples", 200) as usize;
    for f in table.iter() {
        let w = f.w;
        let mask = if w == 64 { u64::MAX } else { (1u64 << w) - 1 };
        let mut ps: Vec<u64> = vec![];
        if w <= 8 {
            ps.extend(0..=mask);
        } else {
            ps.extend([0, 1, 2, mask, mask - 1, 1 << (w - 1), (1 << (w - 1)) - 1, (1 << (w - 1)) + 1]);
            if f.has_inv {
                let inv = (f.inv as u64) & mask;
                ps.extend([inv, inv.wrapping_add(1) & mask, inv.wrapping_sub(1) & mask]);
            }
            for b in 0..w {
                ps.push(1 << b);
                ps.push(mask ^ (1 << b));
            }
            let n = if w > 32 { samples * 25 } else { samples };
            for _ in 0..n {
                ps.push(r.gen::<u64>() & mask);
            }
        }
        for p in ps {
            let o = (f.rt)(p);
            out.emit(json!({"ev": "FieldRt", "id": f.id, "w": w, "p": pat_bits(p, w), "absent": o.absent, "finite": o.finite,
                "err": o.dec_err || o.enc_err, "n": o.n, "q": pat_bits(o.q, w)}));
        }
    }
    // ---- the hand-written bias codecs through one-entry messages: every pattern
    for (num, w) in [(1059u16, 14usize), (1065, 14), (1230, 16)] {
        let mut bad: Vec<u64> = vec![];
        let mut nonfinite: Vec<u64> = vec![];
        for p in 0..(1u64 << w) {
            let mut bw = BitW::new();
            bw.put(num as u64, 12);
            if num == 1230 {
                bw.put(77, 12);
                bw.put(1, 1);
                bw.put(0b0100, 4);
                bw.put(p, 16);
            } else {
                let (epoch_bits, sat_bits) = if num == 1059 { (20, 6) } else { (17, 5) };
                bw.put(4242, epoch_bits);
                bw.put(3, 4);
                bw.put(0, 1);
                bw.put(5, 4);
                bw.put(1234, 16);
                bw.put(9, 4);
                bw.put(1, 6);
                bw.put(7, sat_bits);
                bw.put(1, 5);
                bw.put(1, 5);
                bw.put(p, 14);
            }
            let f = mk_frame(&bw.bytes(), 0);
            let ok = guarded(|| match decode_frame(&f) {
                Some(m) if m.number() == Some(num) => {
                    let fin = crate::msgen::msg_to_v(&m).nonfinite().is_empty();
                    let same = MessageBuilder::new().build_message(&m).map(|g| g == &f[..]).unwrap_or(false);
                    (same, fin)
                }
                _ => (false, true),
            })
            .unwrap_or((false, true));
            if !ok.0 && bad.len() < 64 {
                bad.push(p);
            }
            if !ok.1 && nonfinite.len() < 64 {
                nonfinite.push(p);
            }
        }
        out.emit(json!({"ev": "BiasSweep", "number": num, "w": w, "tried": 1u64 << w,
            "bad": bad.iter().map(|p| pat_bits(*p, w)).collect::<Vec<_>>(),
            "nonfinite": nonfinite.iter().map(|p| pat_bits(*p, w)).collect::<Vec<_>>()}));
    }
}

// ---------------------------------------------------------------- C11: grid-coordinate probes

/// C01 at field level: whatever real input the encoder accepts (in particular inputs far outside the field's range, which
/// wrap), the pattern it writes is a normal form: decoding it and encoding the result writes the same pattern again.
/// Inputs: the wrap-around aliases of zero and of the range ends, k = +-m * 2^(w-1) and +-m * 2^w (+-1), m = 1..6.
pub fn rec_fieldnf(_a: &Args, out: &mut Out) {
    for f in field_table().iter() {
        let probe = match f.probe {
            Some(p) => p,
            None => continue,
        };
        let w = f.w as u32;
        if w >= 62 {
            continue;
        }
        let mut ks: Vec<i64> = vec![0, 1, -1];
        for m in 1..=6i64 {
            for base in [m << (w - 1), m << w] {
                for d in [-1i64, 0, 1] {
                    ks.push(base + d);
                    ks.push(-(base + d));
                }
            }
        }
        for sh in [w + 3, w + 8, 40, 52] {
            if sh < 62 {
                ks.push(1i64 << sh);
                ks.push(-(1i64 << sh));
                ks.push((1i64 << sh) + (1i64 << (w - 1)));
                ks.push(-((1i64 << sh) + (1i64 << (w - 1))));
            }
        }
        for k in ks {
            out.emit(fieldnf_event(f, k));
        }
    }
}

/// one FieldNf observation: encode k grid units, decode the written pattern, encode again
pub fn fieldnf_event(f: &FieldFns, k: i64) -> J {
    let probe = f.probe.expect("real-valued field");
    let pr = match guarded(|| probe(k, 0.0)) {
        Ok(p) => p,
        Err(p) => return json!({"ev": "FieldNf", "id": f.id, "w": f.w, "k": k.to_string(), "panic": p, "enc_err": false, "p": [], "q": [], "rt_err": false}),
    };
    if pr.enc_err {
        return json!({"ev": "FieldNf", "id": f.id, "w": f.w, "k": k.to_string(), "panic": "", "enc_err": true, "p": [], "q": [], "rt_err": false});
    }
    let mask = if f.w == 64 { u64::MAX } else { (1u64 << f.w) - 1 };
    let raw = pr.raw & mask;
    match guarded(|| (f.rt)(raw)) {
        Ok(o) => json!({"ev": "FieldNf", "id": f.id, "w": f.w, "k": k.to_string(), "panic": "", "enc_err": false, "p": pat_bits(raw, f.w), "q": pat_bits(o.q, f.w),
            "rt_err": o.dec_err || o.enc_err}),
        Err(p) => json!({"ev": "FieldNf", "id": f.id, "w": f.w, "k": k.to_string(), "panic": p, "enc_err": false, "p": pat_bits(raw, f.w), "q": [], "rt_err": false}),
    }
}

pub fn rec_probes(a: &Args, out: &mut Out) {
    let table = field_table();
    let per_field = a.num("per_field", 40) as usize;
    let mut r = rng(a.seed(), 11);
    for f in table.iter() {
        let probe = match f.probe {
            Some(p) => p,
            None => continue,
        };
        let w = f.w as u32;
        let (lo, hi): (i64, i64) = match f.kind {
            "u" => (0, ((1u64 << w) - 1) as i64),
            "s" => (-(1i64 << (w - 1)), (1i64 << (w - 1)) - 1),
            _ => (-((1i64 << (w - 1)) - 1), (1i64 << (w - 1)) - 1),
        };
        // the integer value of the inv pattern under the field's kind (must be avoided as k and k+1)
        let invv: Option<i64> = if f.has_inv { Some(f.inv) } else { None };
        let mut ks: Vec<i64> = vec![lo, lo + 1, hi - 1, hi - 2, 0, 1, -1, -2, 2, hi / 2, lo / 2, hi / 4, lo / 4];
        for _ in 0..per_field {
            // log-uniform magnitudes so that both the precise and the coarse regime are visited
            let bits = r.gen_range(1..=w.min(62));
            let m = r.gen_range(0..(1i64 << bits));
            ks.push(if lo < 0 && r.gen() { -m } else { m });
        }
        ks.retain(|k| *k >= lo && *k + 1 <= hi && Some(*k) != invv && Some(*k + 1) != invv);
        ks.sort();
        ks.dedup();
        out.emit(json!({"ev": "ProbeBegin", "id": f.id, "w": f.w, "kind": f.kind, "ftype": f.ftype}));
        for k in ks {
            for (tnum, tden) in [(0u32, 4u32), (1, 4), (4, 4), (7, 4), (8191, 14), (8, 4), (8193, 14), (9, 4), (12, 4), (15, 4)] {
                let p = probe(k, tnum as f64 / (1u32 << tden) as f64);
                let err_q20 = if p.err_units.is_finite() { (p.err_units * 1048576.0).min(1.0e9) as i64 } else { 1_000_000_000 };
                out.emit(json!({"ev": "Probe", "id": f.id, "kbits": bits_of(k as i128, 64), "tnum": tnum, "tden": tden, "enc_err": p.enc_err,
                    "kout": bits_of(p.kout, 64), "err_q20": err_q20, "dec_absent": p.dec_absent, "finite_x": p.x.is_finite()}));
            }
        }
    }
    // the hand-written bias quantisers through one-entry messages
    for (num, w, res) in [(1059u16, 14u32, 0.01f32), (1065, 14, 0.01), (1230, 16, 0.02)] {
        let lo = -(1i64 << (w - 1));
        let hi = (1i64 << (w - 1)) - 1;
        let mut ks: Vec<i64> = vec![lo, lo + 1, hi - 1, 0, 1, -1, -2, 100, -100, 1000, -1000];
        for _ in 0..per_field {
            ks.push(r.gen_range(lo..hi));
        }
        ks.retain(|k| *k >= lo && *k + 1 <= hi);
        ks.sort();
        ks.dedup();
        out.emit(json!({"ev": "ProbeBegin", "id": format!("bias{}", num), "w": w, "kind": "s", "ftype": "f32"}));
        for k in ks {
            for (tnum, tden) in [(0u32, 4u32), (1, 4), (4, 4), (7, 4), (8191, 14), (8, 4), (8193, 14), (9, 4), (12, 4), (15, 4)] {
                let x: f32 = ((k as f32) + (tnum as f32) / ((1u32 << tden) as f32)) * res;
                let m = if num == 1230 {
                    crate::special_msm::msg1230(&mut r, &[(1, 'P', x)])
                } else {
                    crate::special_msm::bias_message(&mut r, num, &[(7, 1, 'P', x)])
                };
                let m = match m {
                    Ok(m) => m,
                    Err(_) => continue,
                };
                let res_ev = guarded(|| {
                    let f = MessageBuilder::new().build_message(&m).map(|f| f.to_vec());
                    match f {
                        Ok(f) => {
                            // the bias field is the last w bits before the zero padding
                            let d = decode_frame(&f);
                            let v = d.map(|d| crate::msgen::msg_to_v(&d));
                            let back = v.and_then(|v| {
                                let list = v.field("biases").or(v.field("glo_code_phase_biases")).and_then(|b| b.as_seq().cloned());
                                list.and_then(|l| l.get(0).and_then(|e| match e.field("bias_m") {
                                    Some(crate::value::V::F32(y)) => Some(*y),
                                    _ => None,
                                }))
                            });
                            (Some(f), back)
                        }
                        Err(_) => (None, None),
                    }
                });
                if let Ok((Some(f), Some(y))) = res_ev {
                    // read the raw field: payload bit offset of the (single) bias value
                    let off = match num {
                        1059 => 12 + 20 + 4 + 1 + 4 + 16 + 4 + 6 + 6 + 5 + 5,
                        1065 => 12 + 17 + 4 + 1 + 4 + 16 + 4 + 6 + 5 + 5 + 5,
                        _ => 12 + 12 + 1 + 4,
                    };
                    let mut raw: i64 = 0;
                    for b in 0..w as usize {
                        let g = 24 + off + b;
                        raw = (raw << 1) | ((f[g / 8] >> (7 - g % 8)) & 1) as i64;
                    }
                    if raw >= (1i64 << (w - 1)) {
                        raw -= 1i64 << w;
                    }
                    let err = (((y - x) / res).abs() as f64 * 1048576.0).min(1.0e9) as i64;
                    out.emit(json!({"ev": "Probe", "id": format!("bias{}", num), "kbits": bits_of(k as i128, 64), "tnum": tnum, "tden": tden, "enc_err": false,
                        "kout": bits_of(raw as i128, 64), "err_q20": err, "dec_absent": false, "finite_x": true}));
                }
            }
        }
    }
}
