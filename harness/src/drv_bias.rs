//! C16: SSR code-bias lists (1059 / 1065) and GLONASS code-phase bias lists (1230) built through
//! the public API from chosen (satellite, signal, grid unit) entries.

use crate::drv_rt::bias_entries;
use crate::msgen::*;
use crate::special_msm::*;
use crate::util::*;
use crate::value::*;
use rand::rngs::StdRng;
use rand::Rng;
use rtcm_rs::prelude::*;
use serde_json::{json, Value as J};

fn bits_from(f: &[u8], payload_off: usize) -> J {
    let total = (f.len() - 6) * 8;
    J::Array(
        (payload_off..total)
            .map(|k| {
                let g = 24 + k;
                J::from((f[g / 8] >> (7 - g % 8)) & 1)
            })
            .collect(),
    )
}

fn entries_1230(v: &V) -> J {
    let mut out = vec![];
    if let Some(xs) = v.field("glo_code_phase_biases").and_then(|b| b.as_seq()) {
        for x in xs {
            let (b, a) = x.field("signal_id").map(crate::special_msm::sig_of).unwrap_or((-1, -1));
            let bits = match x.field("bias_m") {
                Some(V::F32(f)) => format!("{:08x}", f.to_bits()),
                _ => "?".into(),
            };
            out.push(json!([0, b, a, bits]));
        }
    }
    J::Array(out)
}

fn emit(r: &mut StdRng, out: &mut Out, num: u16, es: &[(u8, u8, char, i32)], class: &str) {
    let res_unit: f32 = if num == 1230 { 0.02 } else { 0.01 };
    let m = if num == 1230 {
        msg1230(r, &es.iter().map(|e| (e.1, e.2, (e.3 as f32) * res_unit)).collect::<Vec<_>>())
    } else {
        bias_message(r, num, &es.iter().map(|e| (e.0, e.1, e.2, (e.3 as f32) * res_unit)).collect::<Vec<_>>())
    };
    let m = match m {
        Ok(m) => m,
        Err(_) => return, // more entries than the container holds
    };
    let ein: Vec<J> = es.iter().map(|e| json!([e.0, e.1, e.2 as u32, e.3, format!("{:08x}", ((e.3 as f32) * res_unit).to_bits())])).collect();
    let mut e = json!({"ev": "Bias", "number": num, "class": class, "entries_in": ein});
    match guarded(|| MessageBuilder::new().build_message(&m).map(|f| f.to_vec())) {
        Ok(Ok(f)) => {
            e["out"] = json!("ok");
            e["flen"] = json!(f.len());
            let off = match num {
                1059 => 61,
                1065 => 58,
                _ => 25,
            };
            e["listoff"] = json!(off);
            e["listbits"] = bits_from(&f, off);
            match guarded(|| decode_frame(&f)) {
                Ok(Some(d)) if d.number() == Some(num) => {
                    let dv = msg_to_v(&d);
                    e["dec"] = json!("typed");
                    e["entries_out"] = if num == 1230 { entries_1230(&dv) } else { bias_entries(&dv) };
                }
                Ok(Some(_)) => e["dec"] = json!("other"),
                _ => e["dec"] = json!("fail"),
            }
        }
        Ok(Err(er)) => e["out"] = json!(format!("err:{:?}", er)),
        Err(p) => e["out"] = json!(format!("panic:{}", p)),
    }
    out.emit(e);
}

pub fn rec_bias(a: &Args, out: &mut Out) {
    let mut r = rng(a.seed(), 16);
    let n = a.num("n", 300) as usize;
    for num in [1059u16, 1065] {
        let table: Vec<(u8, char)> = if num == 1059 { SSR_GPS.to_vec() } else { SSR_GLO.to_vec() };
        let maxsat: usize = if num == 1059 { 64 } else { 32 };
        // systematic satellite counts, one recognised entry each (the wrap case of the 6-bit count is 64)
        for nsat in [0usize, 1, 2, 31, 32, 33, 62, 63, 64] {
            if nsat > maxsat + 1 {
                continue;
            }
            let es: Vec<(u8, u8, char, i32)> = (0..nsat).map(|s| (s as u8, table[s % table.len()].0, table[s % table.len()].1, (s as i32) * 37 - 900)).collect();
            emit(&mut r, out, num, &es, "sat-count");
        }
        // lists filled to the container capacity (1059: distinct (satellite, signal) keys, inside the precondition)
        if num == 1059 {
            for total in [384usize, 389, 390] {
                let mut es: Vec<(u8, u8, char, i32)> = vec![];
                let mut s = 0u8;
                while es.len() < total {
                    for g in table.iter() {
                        if es.len() < total {
                            es.push((s, g.0, g.1, (es.len() as i32 % 16000) - 8000));
                        }
                    }
                    s += 1;
                }
                emit(&mut r, out, num, &es, "sat-count");
            }
        }
        // satellite ids at and beyond the field width
        // every satellite id alone (a one-bit satellite mask at every position), at and beyond the field width
        for sat in (0u8..=66).chain([127u8, 128, 200, 255]) {
            emit(&mut r, out, num, &[(sat, table[0].0, table[0].1, 5)], "sat-id");
        }
        for k in 0..n {
            // random list inside Pre: distinct (sat, signal), recognised signals
            let nsat = match k % 5 {
                0 => r.gen_range(1..=4),
                1 => r.gen_range(20..=maxsat.min(63)),
                _ => r.gen_range(1..=20),
            };
            let mut sats: Vec<u8> = (0..maxsat as u8).collect();
            for i in (1..sats.len()).rev() {
                let j = r.gen_range(0..=i);
                sats.swap(i, j);
            }
            sats.truncate(nsat);
            let mut es: Vec<(u8, u8, char, i32)> = vec![];
            for s in &sats {
                let per = if k % 3 == 0 { table.len() } else { r.gen_range(1..=table.len()) };
                let mut sg = table.clone();
                for i in (1..sg.len()).rev() {
                    let j = r.gen_range(0..=i);
                    sg.swap(i, j);
                }
                for g in sg.iter().take(per) {
                    let kk = match r.gen_range(0..6) {
                        0 => -8192,
                        1 => 8191,
                        2 => 0,
                        3 => -1,
                        _ => r.gen_range(-8192..=8191),
                    };
                    es.push((*s, g.0, g.1, kk));
                }
            }
            if es.len() > 390 {
                es.truncate(390);
            }
            // entries of one satellite scattered through the list
            if k % 2 == 0 {
                for i in (1..es.len()).rev() {
                    let j = r.gen_range(0..=i);
                    es.swap(i, j);
                }
            }
            emit(&mut r, out, num, &es, "random-pre");
            // outside the precondition: repeated signals (more than 31 entries for one satellite), unrecognised signal
            if k % 10 == 0 {
                let s = sats[0];
                let es2: Vec<(u8, u8, char, i32)> = (0..r.gen_range(30..36)).map(|i| (s, table[i % table.len()].0, table[i % table.len()].1, i as i32)).collect();
                emit(&mut r, out, num, &es2, "repeated-signals");
                let mut es3 = es.clone();
                es3.truncate(20);
                es3.push((s, 9, 'Z', 1));
                emit(&mut r, out, num, &es3, "unrecognised-signal");
            }
        }
    }
    // more than 31 entries for ONE satellite (recognised signals, necessarily repeated): contiguous, in separated runs,
    // alternating with another satellite, and in numbers that wrap an 8-bit as well as the 5-bit counter
    for num in [1059u16, 1065] {
        let table: Vec<(u8, char)> = if num == 1059 { SSR_GPS.to_vec() } else { SSR_GLO.to_vec() };
        let e = |s: u8, i: usize| (s, table[i % table.len()].0, table[i % table.len()].1, (i as i32 % 4000) - 2000);
        for n in [32usize, 33, 40, 63, 64, 65, 255, 256, 257, 270, 287, 288, 300, 390] {
            let es: Vec<(u8, u8, char, i32)> = (0..n).map(|i| e(7, i)).collect();
            emit(&mut r, out, num, &es, "over31");
        }
        for (a, b, c) in [(20usize, 1usize, 20usize), (31, 1, 1), (16, 3, 17), (31, 5, 31), (1, 1, 32)] {
            let mut es: Vec<(u8, u8, char, i32)> = (0..a).map(|i| e(7, i)).collect();
            es.extend((0..b).map(|i| e(9, i)));
            es.extend((0..c).map(|i| e(7, a + i)));
            emit(&mut r, out, num, &es, "over31");
        }
        for per in [32usize, 33, 40] {
            let es: Vec<(u8, u8, char, i32)> = (0..2 * per).map(|i| e(if i % 2 == 0 { 3 } else { 12 }, i / 2)).collect();
            emit(&mut r, out, num, &es, "over31");
        }
        for _ in 0..6 {
            let big = r.gen_range(32..=45usize);
            let mut es: Vec<(u8, u8, char, i32)> = (0..big).map(|i| e(5, i)).collect();
            for s in 0..r.gen_range(1..=8u8) {
                for i in 0..r.gen_range(1..=4usize) {
                    es.push(e(10 + s, i));
                }
            }
            for i in (1..es.len()).rev() {
                let j = r.gen_range(0..=i);
                es.swap(i, j);
            }
            emit(&mut r, out, num, &es, "over31");
        }
    }
    // 1230: every non-empty subset of the four signals in every order
    let sigs = [(1u8, 'C'), (1, 'P'), (2, 'C'), (2, 'P')];
    let mut perms: Vec<Vec<usize>> = vec![];
    fn permute(cur: &mut Vec<usize>, rest: &mut Vec<usize>, out: &mut Vec<Vec<usize>>) {
        if !cur.is_empty() {
            out.push(cur.clone());
        }
        for i in 0..rest.len() {
            let x = rest.remove(i);
            cur.push(x);
            permute(cur, rest, out);
            cur.pop();
            rest.insert(i, x);
        }
    }
    permute(&mut vec![], &mut vec![0, 1, 2, 3], &mut perms);
    emit(&mut r, out, 1230, &[], "empty");
    for p in perms {
        let es: Vec<(u8, u8, char, i32)> = p.iter().map(|i| (0u8, sigs[*i].0, sigs[*i].1, match r.gen_range(0..5) { 0 => -32768, 1 => 32767, 2 => 0, _ => r.gen_range(-32768..=32767) })).collect();
        emit(&mut r, out, 1230, &es, "subset-order");
    }
    emit(&mut r, out, 1230, &[(0, 1, 'C', 3), (0, 1, 'C', 4)], "duplicate");
    emit(&mut r, out, 1230, &[(0, 5, 'X', 3)], "unrecognised-signal");
}
