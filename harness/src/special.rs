//! Hand-steered inputs that random mutation is unlikely to hit: MSM satellite/signal sets,
//! SSR bias lists, GLONASS frequency channel numbers, text at capacity.  (Grown per property.)

use crate::msgen::*;
use crate::util::*;
use crate::value::*;
use rand::rngs::StdRng;
use rand::Rng;
use rtcm_rs::prelude::*;

/// set a (possibly nested, by field name) leaf of a message tree
pub fn set_field(v: &mut V, name: &str, val: V) -> bool {
    let mut done = false;
    let mut p = vec![];
    v.walk_mut(&mut p, &mut |path, node| {
        if !done && path.last().map(|s| s.as_str()) == Some(name) {
            *node = val.clone();
            done = true;
        }
    });
    done
}

pub fn special_messages(r: &mut StdRng) -> Vec<Message> {
    let mut out = vec![];
    // GLONASS frequency channel numbers around the i8 bias edge (df040: value - (-7))
    for num in [1009u16, 1010, 1011, 1012] {
        if let Some(t) = template(r, num) {
            for ch in [121i128, 122, 127, -7, -8, -128, 0, 13] {
                let mut v = msg_to_v(&t);
                let mut p = vec![];
                v.walk_mut(&mut p, &mut |path, node| {
                    if path.last().map(|s| s.contains("freq_chan")).unwrap_or(false) {
                        if let V::Int { v, .. } = node {
                            *v = ch;
                        }
                    }
                });
                if let Ok(m) = v_to_msg(&v) {
                    out.push(m);
                }
            }
        }
    }
    out.extend(crate::special_msm::msm_specials(r));
    out.extend(crate::special_msm::bias_specials(r));
    out
}
