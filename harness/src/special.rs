//! Hand-steered inputs that random mutation is unlikely to hit: MSM satellite/signal sets,
//! SSR bias lists, GLONASS frequency channel numbers, text at capacity.  (Grown per property.)

use crate::msgen::*;
use crate::util::*;
use crate::value::*;
use rand::rngs::StdRng;
use rand::Rng;
use rtcm_rs::prelude::*;

/// set a (possibly nested, by field name) leaf of a message tree
pub fn set_field(v: &mut V, name: &str, val: V) -> bool {
    let mut done = false;
    let mut p = vec![];
    v.walk_mut(&mut p, &mut |path, node| {
        if !done && path.last().map(|s| s.as_str()) == Some(name) {
            *node = val.clone();
            done = true;
        }
    });
    done
}

pub fn special_messages(r: &mut StdRng) -> Vec<Message> {
    let mut out = vec![];
    // GLONASS frequency channel numbers around the i8 bias edge (df040: value - (-7))
    for num in [1009u16, 1010, 1011, 1012] {
        if let Some(t) = template(r, num) {
            for ch in [121i128, 122, 127, -7, -8, -128, 0, 13] {
                let mut v = msg_to_v(&t);
                let mut p = vec![];
                v.walk_mut(&mut p, &mut |path, node| {
                    if path.last().map(|s| s.contains("freq_chan")).unwrap_or(false) {
                        if let V::Int { v, .. } = node {
                            *v = ch;
                        }
                    }
                });
                if let Ok(m) = v_to_msg(&v) {
                    out.push(m);
                }
            }
        }
    }
    // text fields set through the public conversions from strings that are longer than the field, with a wide character
    // straddling the capacity (1029: 255 bytes / 127 characters; descriptors: 31 characters)
    if let Some(Message::Msg1029(t)) = template(r, 1029) {
        for (pre, ch, n) in [(1usize, '漢', 90usize), (0, '漢', 86), (2, 'é', 130), (254, 'é', 2), (253, '\u{10000}', 2), (252, '\u{10000}', 1), (0, 'a', 300), (120, '\u{1F600}', 10)] {
            let txt: String = "a".repeat(pre) + &ch.to_string().repeat(n);
            if let Ok(m) = crate::util::guarded(|| {
                let mut t = t.clone();
                t.text_str = rtcm_rs::util::ArrayString::from(txt.as_str());
                Message::Msg1029(t)
            }) {
                out.push(m);
            }
        }
    }
    if let Some(Message::Msg1033(t)) = template(r, 1033) {
        for txt in ["é".repeat(40), "a".repeat(30) + "漢字", "\u{0}".repeat(33), "x".repeat(31) + "\u{10ffff}"] {
            if let Ok(m) = crate::util::guarded(|| {
                let mut t = t.clone();
                t.antenna_descriptor_str = rtcm_rs::util::Df88591String::from(txt.as_str());
                t.receiver_serial_number_str = rtcm_rs::util::Df88591String::from(txt.as_str());
                Message::Msg1033(t)
            }) {
                out.push(m);
            }
        }
    }
    out.extend(crate::special_msm::msm_specials(r));
    out.extend(crate::special_msm::bias_specials(r));
    out
}
