//! Message sources: "all Message values constructible through the public API".
//! Templates come from decoding frames produced by the library's own test generator;
//! the value tree is then mutated leaf by leaf (type-aware) and turned back into a Message.

use crate::frames::*;
use crate::util::*;
use crate::value::*;
use rand::rngs::StdRng;
use rand::Rng;
use rtcm_rs::prelude::*;

pub fn decode_frame(f: &[u8]) -> Option<Message> {
    match next_msg_frame(f) {
        (_, Some(mf)) => Some(mf.get_message()),
        _ => None,
    }
}

/// a typed message of the given number in normal form (decoded from a generated frame)
pub fn template(r: &mut StdRng, num: u16) -> Option<Message> {
    for _ in 0..20 {
        if let Some(f) = lib_frame(r, num) {
            if let Some(m) = decode_frame(&f) {
                if m.number() == Some(num) {
                    return Some(m);
                }
            }
        }
    }
    None
}

pub fn msg_to_v(m: &Message) -> V {
    to_v(m).expect("message serialises to the value tree")
}
pub fn v_to_msg(v: &V) -> Result<Message, String> {
    from_v::<Message>(v.clone()).map_err(|e| e.0)
}

fn int_range(signed: bool, bits: u8) -> (i128, i128) {
    if signed {
        (-(1i128 << (bits - 1)), (1i128 << (bits - 1)) - 1)
    } else {
        (0, (1i128 << bits) - 1)
    }
}

fn mutate_int(r: &mut StdRng, signed: bool, bits: u8, old: i128) -> i128 {
    let (lo, hi) = int_range(signed, bits);
    let c = match r.gen_range(0..14) {
        0 => 0,
        1 => 1,
        2 => hi,
        3 => hi - 1,
        4 => lo,
        5 => -1,
        6 => r.gen_range(lo..=hi),
        7 => r.gen_range(0..64),
        8 => 1i128 << r.gen_range(0..bits as u32),
        9 => (1i128 << r.gen_range(0..bits as u32)) - 1,
        10 => old + 1,
        11 => old - 1,
        12 => old / 2,
        _ => -old,
    };
    c.clamp(lo, hi)
}

fn mutate_f64(r: &mut StdRng, old: f64) -> f64 {
    match r.gen_range(0..16) {
        0 => 0.0,
        1 => -0.0,
        2 => 1e-30,
        3 => -1e-30,
        4 => 1e300,
        5 => -1e300,
        6 => f64::INFINITY,
        7 => f64::NEG_INFINITY,
        8 => f64::NAN,
        9 => old * 1.000001 + 1e-9,
        10 => old * 10.0,
        11 => -old,
        12 => old + r.gen_range(-1.0..1.0) * old.abs().max(1e-6) * 1e-3,
        13 => r.gen_range(-1.0..1.0) * 10f64.powi(r.gen_range(-8..10)),
        14 => f64::from_bits(r.gen()),
        _ => old * 0.5,
    }
}

const ATTRS: &[char] = &['C', 'P', 'W', 'S', 'L', 'X', 'I', 'Q', 'A', 'B', 'Z', 'D', 'Y', 'M', 'N', 'E', 'c', '?', '\u{0}', 'é', '漢'];

pub fn random_string(r: &mut StdRng, max_chars: usize) -> String {
    let n = match r.gen_range(0..6) {
        0 => 0,
        1 => max_chars,
        2 => max_chars + 1,
        3 => max_chars.saturating_sub(1),
        _ => r.gen_range(0..=max_chars + 3),
    };
    let style = r.gen_range(0..6);
    (0..n)
        .map(|_| match style {
            0 => r.gen_range(0x20u8..0x7F) as char,
            1 => char::from_u32(r.gen_range(0x80..0x100)).unwrap(),
            2 => *pick(r, &['a', 'é', 'ÿ', '\u{0}', '\u{a4}', '\u{100}', '\u{7ff}', '\u{800}', '\u{ffff}', '\u{10000}', '\u{10ffff}']),
            3 => char::from_u32(r.gen_range(0x4e00..0x9fff)).unwrap(),
            4 => char::from_u32(r.gen_range(0x10000..0x10ffff)).unwrap_or('x'),
            _ => loop {
                if let Some(c) = char::from_u32(r.gen_range(0..0x11_0000)) {
                    break c;
                }
            },
        })
        .collect()
}

/// Mutate a value tree in place.  `rate` is the per-leaf probability.
pub fn mutate(v: &mut V, r: &mut StdRng, rate: f64, nan_ok: bool) {
    let mut path = vec![];
    v.walk_mut(&mut path, &mut |_p, node| {
        if r.gen::<f64>() >= rate {
            return;
        }
        match node {
            V::Int { signed, bits, v } => *v = mutate_int(r, *signed, *bits, *v),
            V::F32(f) => {
                let mut x = mutate_f64(r, *f as f64) as f32;
                if !nan_ok && x.is_nan() {
                    x = 1.5;
                }
                *f = x
            }
            V::F64(f) => {
                let mut x = mutate_f64(r, *f);
                if !nan_ok && x.is_nan() {
                    x = 1.5;
                }
                *f = x
            }
            V::Char(c) => *c = *pick(r, ATTRS),
            V::Str(s) => *s = random_string(r, if s.chars().count() > 40 { 127 } else { 31 }),
            V::None => {
                *node = V::Some(Box::new(V::Int { signed: true, bits: 8, v: r.gen_range(-3..4) }));
            }
            V::Some(_) => {
                if r.gen_range(0..3) == 0 {
                    *node = V::None;
                }
            }
            V::Seq(xs) => {
                match r.gen_range(0..8) {
                    0 => xs.clear(),
                    1 => {
                        let n = r.gen_range(0..=xs.len());
                        xs.truncate(n);
                    }
                    2 => xs.reverse(),
                    3 => {
                        for i in (1..xs.len()).rev() {
                            let j = r.gen_range(0..=i);
                            xs.swap(i, j);
                        }
                    }
                    4 => {
                        if !xs.is_empty() {
                            let x = xs[r.gen_range(0..xs.len())].clone();
                            xs.push(x);
                        }
                    }
                    5 | 6 => {
                        // grow: clone elements, bump their small integer keys so they differ
                        if !xs.is_empty() {
                            let extra = r.gen_range(1..=xs.len().max(3));
                            for k in 0..extra {
                                let mut x = xs[r.gen_range(0..xs.len())].clone();
                                bump_keys(&mut x, k as i128 + 1);
                                xs.push(x);
                            }
                        }
                    }
                    _ => {
                        if xs.len() > 1 {
                            let i = r.gen_range(0..xs.len());
                            xs.remove(i);
                        }
                    }
                }
            }
            _ => {}
        }
    });
}

/// shift identifier-like fields of a cloned list element so the clone gets a new key
pub fn bump_keys(x: &mut V, by: i128) {
    if let V::Struct(_, fs) = x {
        for (k, v) in fs.iter_mut() {
            if k.contains("satellite_id") || k.ends_with("_id") {
                if let V::Int { signed, bits, v } = v {
                    let (lo, hi) = int_range(*signed, *bits);
                    *v = (*v + by).clamp(lo, hi);
                }
            }
        }
    }
}

/// A mutated message of type `num` that still deserialises; None if nothing worked.
pub fn mutated_message(r: &mut StdRng, tmpl: &Message, nan_ok: bool) -> Message {
    let base = msg_to_v(tmpl);
    for attempt in 0..12 {
        let mut v = base.clone();
        let rate = match attempt {
            0..=3 => *pick(r, &[0.02, 0.05, 0.15, 0.4, 1.0]),
            4..=8 => 0.05,
            _ => 0.01,
        };
        mutate(&mut v, r, rate, nan_ok);
        if let Ok(m) = v_to_msg(&v) {
            return m;
        }
    }
    tmpl.clone()
}

/// the three variants without a wire form
pub fn wireless(r: &mut StdRng) -> Message {
    match r.gen_range(0..3) {
        0 => Message::Empty,
        1 => Message::Corrupt,
        _ => Message::MsgNotSupported(rtcm_rs::msg::message::MsgNotSupportedT { message_number: r.gen_range(0..4096) }),
    }
}

pub fn variant_number(variant: &str) -> i64 {
    variant.strip_prefix("Msg").and_then(|d| d.parse::<i64>().ok()).unwrap_or(-1)
}
