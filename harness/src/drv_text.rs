//! C17: text fields.  Conversions of arbitrary Unicode strings to Df88591String<N> / ArrayString<N>,
//! message round trips of descriptor and text fields set through From<&str>, and 1029 frames whose
//! text bytes are (in)valid UTF-8.

use crate::drv_decode::BitW;
use crate::frames::*;
use crate::msgen::*;
use crate::util::*;
use rand::rngs::StdRng;
use rand::Rng;
use rtcm_rs::prelude::*;
use rtcm_rs::util::{ArrayString, Df88591String};
use serde_json::{json, Value as J};

fn cps(s: &str) -> J {
    J::Array(s.chars().map(|c| json!(c as u32)).collect())
}

const SPECIAL: &[char] = &['\u{0}', 'A', '\u{7f}', '\u{80}', '\u{a4}', '\u{ff}', '\u{100}', '\u{7ff}', '\u{800}', '\u{ffff}', '\u{10000}', '\u{10ffff}', 'é', 'ÿ', '漢'];

fn gen_string(r: &mut StdRng, target_chars: usize) -> String {
    let style = r.gen_range(0..9);
    (0..target_chars)
        .map(|i| match style {
            0 => r.gen_range(0x20u8..0x7F) as char,
            1 => char::from_u32(r.gen_range(0x80..0x100)).unwrap(),
            2 => *pick(r, SPECIAL),
            3 => char::from_u32(r.gen_range(0x800..0xD800)).unwrap(),
            4 => char::from_u32(r.gen_range(0x10000..0x110000)).unwrap(),
            5 => {
                // ASCII with one wide character near the end (straddling the capacity)
                if i + 3 >= target_chars {
                    *pick(r, &['é', '漢', '\u{10000}', 'ÿ', '\u{7ff}'])
                } else {
                    'a'
                }
            }
            6 => {
                // pure ASCII with NULs
                if r.gen_range(0..4) == 0 { '\u{0}' } else { r.gen_range(0x20u8..0x7F) as char }
            }
            7 => {
                // Latin-1 characters whose bytes, read as UTF-8, form well-formed two-byte sequences (e.g. "Ã©")
                if i % 2 == 0 { char::from_u32(r.gen_range(0xC2..0xE0)).unwrap() } else { char::from_u32(r.gen_range(0x80..0xC0)).unwrap() }
            }
            _ => loop {
                if let Some(c) = char::from_u32(r.gen_range(0..0x11_0000)) {
                    break c;
                }
            },
        })
        .collect()
}

fn desc_obs<const N: usize>(s: &str) -> J {
    match guarded(|| {
        let d = Df88591String::<N>::from(s);
        (d.iter().cloned().collect::<Vec<u8>>(), d.len(), d.chars().map(|c| c as u32).collect::<Vec<u32>>())
    }) {
        Ok((bytes, len, chars)) => json!({"ev": "Str", "kind": "desc", "cap": N, "cps_in": cps(s), "bytes": bytes, "len": len, "chars": chars, "panic": ""}),
        Err(p) => json!({"ev": "Str", "kind": "desc", "cap": N, "cps_in": cps(s), "bytes": [], "len": -1, "chars": [], "panic": p}),
    }
}
fn utf8_obs<const N: usize>(s: &str) -> J {
    match guarded(|| {
        let a = ArrayString::<N>::from(s);
        let st: &str = &a;
        (st.as_bytes().to_vec(), st.len(), st.chars().map(|c| c as u32).collect::<Vec<u32>>())
    }) {
        Ok((bytes, len, chars)) => json!({"ev": "Str", "kind": "utf8", "cap": N, "cps_in": cps(s), "bytes": bytes, "len": len, "chars": chars, "panic": ""}),
        Err(p) => json!({"ev": "Str", "kind": "utf8", "cap": N, "cps_in": cps(s), "bytes": [], "len": -1, "chars": [], "panic": p}),
    }
}

fn frame_1029(r: &mut StdRng, nchars: u64, text: &[u8], declared: u64) -> Vec<u8> {
    let mut w = BitW::new();
    w.put(1029, 12);
    w.put(r.gen_range(0..4096), 12);
    w.put(r.gen_range(0..65536), 16);
    w.put(r.gen_range(0..86400), 17);
    w.put(nchars, 7);
    w.put(declared, 8);
    for b in text {
        w.put(*b as u64, 8);
    }
    mk_frame(&w.bytes(), 0)
}

pub fn rec_text(a: &Args, out: &mut Out) {
    let mut r = rng(a.seed(), 17);
    let n = a.num("n", 400) as usize;
    // ---- conversions
    for k in 0..n {
        let cap = [1usize, 7, 31][k % 3];
        let tc = *pick(&mut r, &[0, 1, cap.saturating_sub(1), cap, cap + 1, cap + 2, cap * 2]);
        let s = gen_string(&mut r, tc);
        out.emit(match cap {
            1 => desc_obs::<1>(&s),
            7 => desc_obs::<7>(&s),
            _ => desc_obs::<31>(&s),
        });
        let ucap = [7usize, 31, 255][k % 3];
        // byte totals around the capacity with each character width
        let width = [1usize, 2, 3, 4][(k / 3) % 4];
        let tc = match k % 5 {
            0 => ucap / width,
            1 => ucap / width + 1,
            2 => (ucap / width).saturating_sub(1),
            3 => r.gen_range(0..=ucap + 3),
            _ => 126 + (k % 4),
        };
        let s = match width {
            1 => gen_string(&mut r, tc),
            2 => (0..tc).map(|_| char::from_u32(r.gen_range(0x80..0x800)).unwrap()).collect(),
            3 => (0..tc).map(|_| char::from_u32(r.gen_range(0x800..0xD800)).unwrap()).collect(),
            _ => (0..tc).map(|_| char::from_u32(r.gen_range(0x10000..0x110000)).unwrap()).collect(),
        };
        // a one-byte prefix shifts the straddling position
        let s = if k % 2 == 0 { format!("a{}", s) } else { s };
        out.emit(match ucap {
            7 => utf8_obs::<7>(&s),
            31 => utf8_obs::<31>(&s),
            _ => utf8_obs::<255>(&s),
        });
    }
    // ---- message round trips with fields set through From<&str>
    let t1029 = template(&mut r, 1029);
    let t1007 = template(&mut r, 1007);
    let t1008 = template(&mut r, 1008);
    let t1033 = template(&mut r, 1033);
    for k in 0..n {
        let tc = match k % 6 {
            0 => 127,
            1 => 128,
            2 => 126,
            3 => r.gen_range(0..40),
            4 => 85,
            _ => r.gen_range(0..200),
        };
        let width = if k % 6 <= 2 && k % 2 == 0 { 1 } else { r.gen_range(1..=4usize) };
        let s: String = match width {
            1 => {
                if k % 3 == 0 {
                    (0..tc).map(|_| r.gen_range(0x20u8..0x7F) as char).collect()
                } else {
                    gen_string(&mut r, tc)
                }
            }
            2 => (0..tc).map(|_| char::from_u32(r.gen_range(0x80..0x800)).unwrap()).collect(),
            3 => (0..tc.min(90)).map(|_| char::from_u32(r.gen_range(0x800..0xD800)).unwrap()).collect(),
            _ => (0..tc.min(70)).map(|_| char::from_u32(r.gen_range(0x10000..0x110000)).unwrap()).collect(),
        };
        // more than 127 characters within 255 bytes is only possible with mostly one-byte characters; mix in a few wide ones
        let s: String = if k % 7 == 3 {
            let wide = ['\u{1F600}', '\u{10000}', '漢', 'é', '\u{10ffff}'];
            let total = 124 + (k / 7) % 8; // 124..=131 characters
            let nw = 1 + (k / 56) % 3;
            (0..total).map(|i| if i % (total / nw) == total / nw - 1 { wide[(i + k) % wide.len()] } else { (b'a' + (i % 26) as u8) as char }).collect()
        } else {
            s
        };
        if let Some(Message::Msg1029(t)) = &t1029 {
            let t = match guarded(|| {
                let mut t = t.clone();
                t.text_str = ArrayString::from(s.as_str());
                t
            }) {
                Ok(t) => Some(t),
                Err(p) => {
                    out.emit(json!({"ev": "TextRt", "number": 1029, "field": "text_str", "cps_in": cps(&s), "stored": [], "out": format!("panic:{}", p)}));
                    None
                }
            };
            if let Some(t) = t {
            let stored: &str = &t.text_str;
            let stored_cps = cps(stored);
            let m = Message::Msg1029(t.clone());
            let mut e = json!({"ev": "TextRt", "number": 1029, "field": "text_str", "cps_in": cps(&s), "stored": stored_cps});
            match guarded(|| MessageBuilder::new().build_message(&m).map(|f| f.to_vec())) {
                Ok(Ok(f)) => {
                    e["out"] = json!("ok");
                    e["frame"] = bytes_json(&f);
                    match guarded(|| decode_frame(&f)) {
                        Ok(Some(Message::Msg1029(d))) => {
                            let ds: &str = &d.text_str;
                            e["dec"] = json!("Typed");
                            e["cps_dec"] = cps(ds);
                        }
                        Ok(Some(Message::Corrupt)) => e["dec"] = json!("Corrupt"),
                        _ => e["dec"] = json!("Other"),
                    }
                }
                Ok(Err(er)) => e["out"] = json!(format!("err:{:?}", er)),
                Err(p) => e["out"] = json!(format!("panic:{}", p)),
            }
            out.emit(e);
            }
        }
        // descriptor strings
        let dlen = *pick(&mut r, &[0usize, 1, 30, 31, 32, 40]);
        let ds = gen_string(&mut r, dlen);
        let which = k % 3;
        let (desc, stored) = match guarded(|| {
            let desc = Df88591String::<31>::from(ds.as_str());
            let stored: Vec<u32> = desc.chars().map(|c| c as u32).collect();
            (desc, stored)
        }) {
            Ok(x) => x,
            Err(p) => {
                out.emit(json!({"ev": "TextRt", "number": ([1007, 1008, 1033][which]), "field": "descriptor", "cps_in": cps(&ds), "stored": [], "out": format!("panic:{}", p)}));
                continue;
            }
        };
        let m = match which {
            0 => t1007.clone().map(|m| match m {
                Message::Msg1007(mut t) => {
                    t.antenna_descriptor_str = desc.clone();
                    Message::Msg1007(t)
                }
                o => o,
            }),
            1 => t1008.clone().map(|m| match m {
                Message::Msg1008(mut t) => {
                    t.antenna_serial_number_str = desc.clone();
                    Message::Msg1008(t)
                }
                o => o,
            }),
            _ => t1033.clone().map(|m| match m {
                Message::Msg1033(mut t) => {
                    t.receiver_firmware_version_str = desc.clone();
                    Message::Msg1033(t)
                }
                o => o,
            }),
        };
        if let Some(m) = m {
            let num = m.number().unwrap_or(0);
            let fname = ["antenna_descriptor_str", "antenna_serial_number_str", "receiver_firmware_version_str"][which];
            let mut e = json!({"ev": "TextRt", "number": num, "field": fname, "cps_in": cps(&ds), "stored": stored});
            match guarded(|| MessageBuilder::new().build_message(&m).map(|f| f.to_vec())) {
                Ok(Ok(f)) => {
                    e["out"] = json!("ok");
                    e["frame"] = bytes_json(&f);
                    let d = guarded(|| decode_frame(&f));
                    let got: Option<Vec<u32>> = match d {
                        Ok(Some(Message::Msg1007(t))) => Some(t.antenna_descriptor_str.chars().map(|c| c as u32).collect()),
                        Ok(Some(Message::Msg1008(t))) => Some(t.antenna_serial_number_str.chars().map(|c| c as u32).collect()),
                        Ok(Some(Message::Msg1033(t))) => Some(t.receiver_firmware_version_str.chars().map(|c| c as u32).collect()),
                        _ => None,
                    };
                    match got {
                        Some(g) => {
                            e["dec"] = json!("Typed");
                            e["cps_dec"] = json!(g);
                        }
                        None => e["dec"] = json!("Other"),
                    }
                }
                Ok(Err(er)) => e["out"] = json!(format!("err:{:?}", er)),
                Err(p) => e["out"] = json!(format!("panic:{}", p)),
            }
            out.emit(e);
        }
    }
    // ---- 1029 frames with (in)valid UTF-8 text
    let bad: Vec<Vec<u8>> = vec![
        vec![0xC0, 0x80], vec![0xC1, 0xBF], vec![0xE0, 0x80, 0x80], vec![0xE0, 0x9F, 0xBF], vec![0xED, 0xA0, 0x80], vec![0xED, 0xBF, 0xBF],
        vec![0xF0, 0x80, 0x80, 0x80], vec![0xF0, 0x8F, 0xBF, 0xBF], vec![0xF4, 0x90, 0x80, 0x80], vec![0xF5, 0x80, 0x80, 0x80], vec![0xE2, 0x82], vec![0xF0, 0x9F, 0x98],
        vec![0x80], vec![0xBF], vec![0xFF], vec![0xFE], vec![0x41, 0xC3], vec![0xC3, 0x41], vec![0xE2, 0x28, 0xA1], vec![0xF8, 0x88, 0x80, 0x80, 0x80],
    ];
    let good: Vec<Vec<u8>> = vec![vec![], vec![0x41], "é".as_bytes().to_vec(), "漢字".as_bytes().to_vec(), "\u{10ffff}".as_bytes().to_vec(), "\u{7ff}\u{800}\u{ffff}\u{10000}".as_bytes().to_vec(),
        vec![0xED, 0x9F, 0xBF], vec![0xEE, 0x80, 0x80], vec![0xF4, 0x8F, 0xBF, 0xBF], vec![0xC2, 0x80], vec![0xE0, 0xA0, 0x80], vec![0xF0, 0x90, 0x80, 0x80]];
    // random byte strings assembled from UTF-8 fragments (valid and damaged)
    let mut rnd_cases: Vec<Vec<u8>> = vec![];
    for _ in 0..(a.num("n", 600) / 6).max(40) {
        let mut t: Vec<u8> = vec![];
        for _ in 0..r.gen_range(1..6) {
            match r.gen_range(0..6) {
                0 => t.push(r.gen_range(0x20..0x7f)),
                1 => t.extend(good[r.gen_range(0..good.len())].clone()),
                2 => t.extend(bad[r.gen_range(0..bad.len())].clone()),
                3 => {
                    let mut c = good[r.gen_range(2..good.len())].clone();
                    let k = r.gen_range(0..c.len());
                    c[k] ^= 1 << r.gen_range(0..8);
                    t.extend(c);
                }
                4 => t.push(r.gen()),
                _ => {
                    if let Some(ch) = char::from_u32(r.gen_range(0x80..0x11_0000)) {
                        let mut b = [0u8; 4];
                        t.extend(ch.encode_utf8(&mut b).as_bytes());
                    }
                }
            }
        }
        rnd_cases.push(t);
    }
    for (cases, _) in [(&bad, "bad"), (&good, "good"), (&rnd_cases, "random")] {
        for c in cases.iter() {
            for (pre, post) in [(0usize, 0usize), (3, 0), (0, 2), (5, 5)] {
                let mut text: Vec<u8> = vec![b'x'; pre];
                text.extend(c);
                text.extend(vec![b'y'; post]);
                // the character counter (DF138) is independent of the byte counter on the wire: equal to the byte count,
                // the true character count (lossy for damaged text), zero, maximal
                let true_chars = String::from_utf8_lossy(&text).chars().count() as u64;
                for nchars in [(text.len() as u64).min(127), true_chars.min(127), 0, 127] {
                    let f = frame_1029(&mut r, nchars, &text, text.len() as u64);
                    let o = match guarded(|| decode_frame(&f)) {
                        Ok(Some(Message::Msg1029(d))) => {
                            let ds: &str = &d.text_str;
                            json!({"dec": "Typed", "cps_dec": cps(ds)})
                        }
                        Ok(Some(Message::Corrupt)) => json!({"dec": "Corrupt"}),
                        Ok(_) => json!({"dec": "Other"}),
                        Err(p) => json!({"dec": format!("panic:{}", p)}),
                    };
                    let mut e = json!({"ev": "Utf8Frame", "text": bytes_json(&text), "nchars": nchars, "frame": bytes_json(&f)});
                    e["dec"] = o["dec"].clone();
                    if let Some(c) = o.get("cps_dec") {
                        e["cps_dec"] = c.clone();
                    }
                    out.emit(e);
                }
            }
        }
    }
    // declared byte length beyond the body
    for declared in [1u64, 10, 255] {
        let f = frame_1029(&mut r, 3, b"ab", declared.max(3));
        let dec = match guarded(|| decode_frame(&f)) {
            Ok(Some(Message::Msg1029(_))) => "Typed".to_string(),
            Ok(Some(Message::Corrupt)) => "Corrupt".to_string(),
            Ok(_) => "Other".to_string(),
            Err(p) => format!("panic:{}", p),
        };
        out.emit(json!({"ev": "Utf8Short", "declared": declared.max(3), "present": 2, "frame": bytes_json(&f), "dec": dec}));
    }
}
