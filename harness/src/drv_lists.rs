//! C15: count-prefixed lists and strings: every n in 0..=capacity through the public API, and
//! hostile frames whose count field exceeds the capacity or whose body is cut short.

use crate::drv_frame::digest;
use crate::frames::*;
use crate::msgen::*;
use crate::util::*;
use crate::value::*;
use rand::rngs::StdRng;
use rand::Rng;
use rtcm_rs::prelude::*;
use serde_json::{json, Value as J};

fn get_path<'a>(v: &'a V, path: &[&str]) -> Option<&'a V> {
    let mut cur = v;
    for p in path {
        cur = cur.field(p)?;
    }
    Some(cur)
}
fn get_path_mut<'a>(v: &'a mut V, path: &[&str]) -> Option<&'a mut V> {
    let mut cur = v;
    for p in path {
        cur = cur.field_mut(p)?;
    }
    Some(cur)
}
fn tag(x: &V) -> String {
    digest(&x.canon().to_string())
}

fn decode_obs(f: &[u8], num: u16, path: &[&str], is_str: bool) -> (String, i64, Vec<J>) {
    match guarded(|| decode_frame(f)) {
        Ok(Some(d)) if d.number() == Some(num) => {
            let dv = msg_to_v(&d);
            match get_path(&dv, path) {
                Some(V::Str(s)) => ("Typed".into(), s.chars().count() as i64, s.chars().map(|c| json!(c as u32)).collect()),
                Some(x) => match x.as_seq() {
                    Some(xs) => ("Typed".into(), xs.len() as i64, xs.iter().map(|e| json!(tag(e))).collect()),
                    None => ("Typed".into(), -1, vec![]),
                },
                None => ("Typed".into(), -1, vec![]),
            }
        }
        Ok(Some(Message::Corrupt)) => ("Corrupt".into(), -1, vec![]),
        Ok(Some(_)) => ("Other".into(), -1, vec![]),
        Ok(None) => ("NoFrame".into(), -1, vec![]),
        Err(p) => (format!("panic:{}", p), -1, vec![]),
    }
}

pub fn rec_lists(a: &Args, out: &mut Out) {
    let mut r = rng(a.seed(), 15);
    let layouts: J = serde_json::from_str(&std::fs::read_to_string(a.str("layouts", "/verif/work/gen/layouts.json")).expect("layouts.json")).unwrap();
    let _ = is_str_dummy();
    for t in layouts.as_array().unwrap() {
        let num = t["number"].as_u64().unwrap() as u16;
        for l in t["lists"].as_array().unwrap() {
            let path_s = l["path"].as_str().unwrap().to_string();
            if path_s.contains("[]") {
                continue; // nested lists are exercised through their parent (1302), see below
            }
            let path: Vec<&str> = path_s.split('.').collect();
            let cap = l["cap"].as_u64().unwrap() as usize;
            let is_str = l["kind"] == "string";
            // element pool from several decoded generated frames
            let mut pool: Vec<V> = vec![];
            let mut base: Option<V> = None;
            for _ in 0..40 {
                if let Some(tm) = template(&mut r, num) {
                    let v = msg_to_v(&tm);
                    if let Some(x) = get_path(&v, &path) {
                        if let Some(xs) = x.as_seq() {
                            for e in xs {
                                if !pool.iter().any(|p| p.same(e)) {
                                    pool.push(e.clone());
                                }
                            }
                        }
                    }
                    base = Some(v);
                    if pool.len() >= cap.max(8) {
                        break;
                    }
                }
            }
            let base = match base {
                Some(b) => b,
                None => continue,
            };
            if !is_str && pool.is_empty() {
                continue;
            }
            // build a message with n elements; `fixed` content does not depend on n (used to locate the count field)
            let build_n = |n: usize, fixed: bool| -> (Option<Vec<J>>, Result<Message, String>) {
                let mut v = base.clone();
                let tags_in: Vec<J>;
                {
                    let node = match get_path_mut(&mut v, &path) {
                        Some(x) => x,
                        None => return (None, Err("no such path".into())),
                    };
                    let k = if fixed { 0 } else { n };
                    if is_str {
                        let s: String = (0..n).map(|i| (b'A' + ((i * 7 + k) % 26) as u8) as char).collect();
                        tags_in = s.chars().map(|c| json!(c as u32)).collect();
                        *node = V::Str(s);
                    } else {
                        let xs: Vec<V> = (0..n).map(|i| pool[(i + k) % pool.len()].clone()).collect();
                        tags_in = xs.iter().map(|e| json!(tag(e))).collect();
                        match node.as_seq_mut() {
                            Some(s) => *s = xs,
                            None => return (None, Err("not a sequence".into())),
                        }
                    }
                }
                (Some(tags_in), v_to_msg(&v).map_err(|e| e.to_string()))
            };
            let build_frame = |n: usize| -> Option<Vec<u8>> {
                match build_n(n, true) {
                    (_, Ok(m)) => match guarded(|| MessageBuilder::new().build_message(&m).map(|f| f.to_vec())) {
                        Ok(Ok(f)) => Some(f),
                        _ => None,
                    },
                    _ => None,
                }
            };
            let cbits = l["count_bits"].as_u64().unwrap() as usize;
            // position of the count field: from the layout when it is fixed; otherwise located on the wire as the first bit in
            // which the frames with cap and cap-1 (otherwise identical) elements differ
            let frame_a = build_frame(cap);
            let mut coff: Option<usize> = l["count_off"].as_u64().map(|x| x as usize);
            if coff.is_none() && cap >= 1 {
                if let (Some(fa), Some(fb)) = (&frame_a, build_frame(cap - 1)) {
                    let nb = (fa.len().min(fb.len()) - 6) * 8;
                    let bit = |f: &Vec<u8>, k: usize| (f[3 + k / 8] >> (7 - k % 8)) & 1;
                    if let Some(d) = (0..nb).find(|&k| bit(fa, k) != bit(&fb, k)) {
                        let x = cap ^ (cap - 1);
                        let p = (usize::BITS - 1 - x.leading_zeros()) as usize;
                        if p < cbits && d + 1 + p >= cbits {
                            coff = Some(d + 1 + p - cbits);
                        }
                    }
                }
            }
            let mut eoff: Option<usize> = l["elems_off"].as_u64().map(|x| x as usize);
            let ebits: Option<usize> = l["elem_bits"].as_u64().map(|x| x as usize);
            if eoff.is_none() && is_str {
                eoff = coff.map(|c| c + cbits);
            }
            let jo = |x: Option<usize>| x.map(|v| v as i64).unwrap_or(-1);
            let (jc, je, jb) = (jo(coff), jo(eoff), jo(ebits));
            for n in 0..=cap {
                let (tags_in, m) = build_n(n, false);
                let tags_in = match tags_in {
                    Some(t) => t,
                    None => break,
                };
                let m = match m {
                    Ok(m) => m,
                    Err(e) => {
                        out.emit(json!({"ev": "ListRt", "number": num, "path": path_s, "n": n, "out": format!("unconstructible:{}", e)}));
                        continue;
                    }
                };
                let res = guarded(|| MessageBuilder::new().build_message(&m).map(|f| f.to_vec()));
                let mut e = json!({"ev": "ListRt", "number": num, "path": path_s, "n": n, "tags_in": tags_in, "coff": jc, "eoff": je, "ebits": jb});
                match res {
                    Ok(Ok(f)) => {
                        let (o, dec_n, tags_out) = decode_obs(&f, num, &path, is_str);
                        e["out"] = json!("ok");
                        e["frame"] = bytes_json(&f);
                        e["dec"] = json!(o);
                        e["dec_n"] = json!(dec_n);
                        e["tags_out"] = json!(tags_out);
                    }
                    Ok(Err(er)) => e["out"] = json!(format!("err:{:?}", er)),
                    Err(p) => e["out"] = json!(format!("panic:{}", p)),
                }
                out.emit(e);
            }
            let full_frame = frame_a;
            // ---- hostile frames derived from the full-length frame
            if let (Some(f), Some(coff)) = (full_frame, coff) {
                // every count value above the capacity
                for c in (cap + 1)..(1usize << cbits) {
                    let mut g = f.clone();
                    for b in 0..cbits {
                        let bit = ((c >> (cbits - 1 - b)) & 1) as u8;
                        let pos = 24 + coff + b;
                        if bit == 1 {
                            g[pos / 8] |= 0x80 >> (pos % 8);
                        } else {
                            g[pos / 8] &= !(0x80 >> (pos % 8));
                        }
                    }
                    refresh_crc(&mut g);
                    let (o, _, _) = decode_obs(&g, num, &path, is_str);
                    out.emit(json!({"ev": "ListHostile", "number": num, "path": path_s, "how": "count-above-cap", "coff": jc, "eoff": je, "ebits": jb, "frame": bytes_json(&g), "out": o}));
                }
                // arbitrary element content (random bits, zero bytes) under an admissible count: still n elements
                if let (Some(eoff), Some(ebits)) = (eoff, ebits) {
                    for style in 0..6u8 {
                        let mut g = f.clone();
                        for e in 0..cap {
                            for b in 0..ebits {
                                let pos = 24 + eoff + e * ebits + b;
                                let v: u8 = match style {
                                    0 => 0,
                                    1 => 1,
                                    2 => r.gen_range(0..2),
                                    3 => if e % 2 == 0 { 0 } else { r.gen_range(0..2) },
                                    4 => if e == cap - 1 { 0 } else { (g[pos / 8] >> (7 - pos % 8)) & 1 },
                                    _ => if e == 0 { 0 } else { (g[pos / 8] >> (7 - pos % 8)) & 1 },
                                };
                                if v == 1 {
                                    g[pos / 8] |= 0x80 >> (pos % 8);
                                } else {
                                    g[pos / 8] &= !(0x80 >> (pos % 8));
                                }
                            }
                        }
                        refresh_crc(&mut g);
                        let (o, dec_n, _) = decode_obs(&g, num, &path, is_str);
                        out.emit(json!({"ev": "ListPatched", "number": num, "path": path_s, "coff": jc, "eoff": je, "ebits": jb, "frame": bytes_json(&g), "out": o, "dec_n": dec_n}));
                    }
                }
                // a count above the capacity WITH a body that really holds that many elements (and the fields after the list)
                if let (Some(eoff), Some(ebits)) = (eoff, ebits) {
                    let total_bits = (f.len() - 6) * 8;
                    let bit = |k: usize| -> u8 { let g = 24 + k; (f[g / 8] >> (7 - g % 8)) & 1 };
                    let tail_start = eoff + cap * ebits;
                    if ebits > 0 && cap > 0 && tail_start <= total_bits {
                        for c in (cap + 1)..(1usize << cbits) {
                            let need = eoff + c * ebits + (total_bits - tail_start);
                            if need > 1023 * 8 {
                                break;
                            }
                            let mut bw = crate::drv_decode::BitW::new();
                            for k in 0..eoff {
                                let v = if k >= coff && k < coff + cbits { ((c >> (cbits - 1 - (k - coff))) & 1) as u8 } else { bit(k) };
                                bw.put(v as u64, 1);
                            }
                            for e in 0..c {
                                let src = eoff + (e % cap) * ebits;
                                for k in 0..ebits {
                                    bw.put(bit(src + k) as u64, 1);
                                }
                            }
                            for k in tail_start..total_bits {
                                bw.put(bit(k) as u64, 1);
                            }
                            let g = mk_frame(&bw.bytes(), 0);
                            let (o, _, _) = decode_obs(&g, num, &path, is_str);
                            out.emit(json!({"ev": "ListHostile", "number": num, "path": path_s, "how": "count-above-cap-with-body", "coff": jc, "eoff": je, "ebits": jb, "frame": bytes_json(&g), "out": o}));
                            if c > cap + 40 && c % 16 != 0 {
                                // sample the long tail of 8-bit counters
                                continue;
                            }
                        }
                    }
                }
                // every truncation point of the full-length frame (re-framed with correct length and CRC)
                let plen = f.len() - 6;
                for cut in 2..plen {
                    let g = mk_frame(&f[3..3 + cut], 0);
                    let (o, _, _) = decode_obs(&g, num, &path, is_str);
                    out.emit(json!({"ev": "ListHostile", "number": num, "path": path_s, "how": "truncated", "coff": jc, "eoff": je, "ebits": jb, "frame": bytes_json(&g), "out": o}));
                }
            }
        }
    }
    let _ = r.gen::<u8>();
}
fn is_str_dummy() -> bool {
    false
}
