#![allow(dead_code, unused_mut)]
//! rtcm_conf -- conformance harness binding the TLA+ specification in /verif/spec to the
//! real rtcm-rs library.  `record <family>` drives the library and writes an NDJSON trace
//! for TLC to validate; `replay <family>` executes spec-generated behaviours.
//! The harness records observations; it never decides a verdict.

mod drv_bias;
mod drv_bits;
mod drv_build;
mod drv_corpus;
mod drv_decode;
mod drv_fields;
mod msgen;
mod rerun;
mod special;
mod special_msm;
mod drv_frame;
mod drv_lists;
mod drv_msm;
mod drv_rt;
mod drv_serde;
mod drv_sig;
mod drv_text;
mod fieldlib;
mod frames;
mod generated;
mod util;
mod value;

use util::*;

fn main() {
    let mut argv = std::env::args().skip(1);
    let cmd = argv.next().unwrap_or_default();
    let family = argv.next().unwrap_or_default();
    let a = Args::parse(argv);
    install_panic_hook();
    let mut out = Out::open(&a.str("out", "-"));
    // a library call that does not return within the limit is a hang: the input is written to <out>.hang.json, exit status 7
    if cmd == "record" || cmd == "replay" || cmd == "rerun" {
        drv_decode::start_watchdog(a.str("out", "-"), a.num("hang_s", 20));
    }
    match (cmd.as_str(), family.as_str()) {
        ("record", "frame_new") => drv_frame::rec_frame_new(&a, &mut out),
        ("record", "sfx") => drv_frame::rec_sfx(&a, &mut out),
        ("record", "scan") => drv_frame::rec_scan(&a, &mut out),
        ("record", "stream") => drv_frame::rec_stream(&a, &mut out),
        ("record", "corrupt") => drv_frame::rec_corrupt(&a, &mut out),
        ("record", "link") => drv_frame::rec_link(&a, &mut out),
        ("record", "bits") => drv_bits::rec_bits(&a, &mut out),
        ("record", "build") => drv_build::rec_build(&a, &mut out),
        ("record", "history") => drv_build::rec_history(&a, &mut out),
        ("record", "decode") => drv_decode::rec_decode(&a, &mut out),
        ("record", "classify") => drv_decode::rec_classify(&a, &mut out),
        ("record", "roundtrip") => drv_rt::rec_roundtrip(&a, &mut out),
        ("record", "fields") => drv_fields::rec_fields(&a, &mut out),
        ("record", "probes") => drv_fields::rec_probes(&a, &mut out),
        ("record", "sigtable") => drv_sig::rec_sigtable(&a, &mut out),
        ("record", "msm") => drv_msm::rec_msm(&a, &mut out),
        ("record", "bias") => drv_bias::rec_bias(&a, &mut out),
        ("record", "lists") => drv_lists::rec_lists(&a, &mut out),
        ("record", "text") => drv_text::rec_text(&a, &mut out),
        ("record", "serde") => drv_serde::rec_serde(&a, &mut out),
        ("record", "corpus") => drv_corpus::rec_corpus(&a, &mut out),
        ("rerun", "events") => rerun::rerun(&a, &mut out),
        ("debug", "extremes") => drv_build::debug_extremes(&a),
        ("replay", "frames") => drv_frame::replay_frames(&a, &mut out),
        ("replay", "stream") => drv_frame::replay_stream(&a, &mut out),
        ("replay", "histories") => drv_build::replay_histories(&a, &mut out),
        _ => {
            eprintln!("usage: rtcm_conf record|replay <family> key=value...");
            std::process::exit(2);
        }
    }
    let n = out.lines;
    out.finish();
    eprintln!("{} {}: {} lines", cmd, family, n);
}
