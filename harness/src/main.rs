#![allow(dead_code, unused_mut)]
//! rtcm_conf -- conformance harness binding the TLA+ specification in /verif/spec to the
//! real rtcm-rs library.  `record <family>` drives the library and writes an NDJSON trace
//! for TLC to validate; `replay <family>` executes spec-generated behaviours.
//! The harness records observations; it never decides a verdict.

mod drv_bias;
mod drv_bits;
mod drv_build;
mod drv_corpus;
mod drv_decode;
mod drv_fields;
mod msgen;
mod rerun;
mod special;
mod special_msm;
mod drv_frame;
mod drv_lists;
mod drv_msm;
mod drv_rt;
mod drv_serde;
mod drv_sig;
mod drv_text;
mod fieldlib;
mod frames;
mod generated;
mod util;
mod value;

use util::*;

fn main() {
    let mut argv = std::env::args().skip(1);
    let cmd = argv.next().unwrap_or_default();
    let family = argv.next().unwrap_or_default();
    let a = Args::parse(argv);
    install_panic_hook();
    let mut out = Out::open(&a.str("out", "-"));
    // a library call that does not return within the limit is a hang: the input is written to <out>.hang.json, exit status 7
    if cmd == "record" || cmd == "replay" || cmd == "rerun" {
        drv_decode::start_watchdog(a.str("out", "-"), a.num("hang_s", 20));
    }
    // every library call the drivers make is wrapped individually (`guarded`); should one slip through, a panic raised inside
    // the library (location = an absolute path outside the toolchain and the registry) still becomes a trace event, which
    // no trace specification accepts; a panic of the harness' own code stays a crash (tool error)
    let run = std::panic::catch_unwind(std::panic::AssertUnwindSafe(|| dispatch(&cmd, &family, &a, &mut out)));
    if let Err(_) = run {
        let msg = take_last_panic().unwrap_or_else(|| "panic".into());
        let loc = msg.rsplit(" @ ").next().unwrap_or("").to_string();
        let in_library = loc.starts_with('/') && !loc.contains("/rustc/") && !loc.contains("/.cargo/") && !loc.contains("/registry/") && !loc.contains("/verif/harness/");
        if in_library && cmd == "record" {
            out.emit(serde_json::json!({"ev": "UncaughtLibraryPanic", "family": family, "panic": msg}));
            out.finish();
            eprintln!("{} {}: library panic outside a guarded call: {}", cmd, family, msg);
            return;
        }
        eprintln!("harness panic: {}", msg);
        std::process::exit(101);
    }
    let n = out.lines;
    out.finish();
    eprintln!("{} {}: {} lines", cmd, family, n);
}

fn dispatch(cmd: &str, family: &str, a: &Args, out: &mut Out) {
    let (a, out) = (a, out);
    match (cmd, family) {
        ("record", "frame_new") => drv_frame::rec_frame_new(a, out),
        ("record", "sfx") => drv_frame::rec_sfx(a, out),
        ("record", "scan") => drv_frame::rec_scan(a, out),
        ("record", "stream") => drv_frame::rec_stream(a, out),
        ("record", "corrupt") => drv_frame::rec_corrupt(a, out),
        ("record", "link") => drv_frame::rec_link(a, out),
        ("record", "bits") => drv_bits::rec_bits(a, out),
        ("record", "build") => drv_build::rec_build(a, out),
        ("record", "history") => drv_build::rec_history(a, out),
        ("record", "decode") => drv_decode::rec_decode(a, out),
        ("record", "classify") => drv_decode::rec_classify(a, out),
        ("record", "roundtrip") => drv_rt::rec_roundtrip(a, out),
        ("record", "fields") => drv_fields::rec_fields(a, out),
        ("record", "fieldnf") => drv_fields::rec_fieldnf(a, out),
        ("record", "probes") => drv_fields::rec_probes(a, out),
        ("record", "sigtable") => drv_sig::rec_sigtable(a, out),
        ("record", "msm") => drv_msm::rec_msm(a, out),
        ("record", "bias") => drv_bias::rec_bias(a, out),
        ("record", "lists") => drv_lists::rec_lists(a, out),
        ("record", "text") => drv_text::rec_text(a, out),
        ("record", "serde") => drv_serde::rec_serde(a, out),
        ("record", "corpus") => drv_corpus::rec_corpus(a, out),
        ("rerun", "events") => rerun::rerun(a, out),
        ("debug", "extremes") => drv_build::debug_extremes(a),
        ("replay", "frames") => drv_frame::replay_frames(a, out),
        ("replay", "stream") => drv_frame::replay_stream(a, out),
        ("replay", "histories") => drv_build::replay_histories(a, out),
        _ => {
            eprintln!("usage: rtcm_conf record|replay <family> key=value...");
            std::process::exit(2);
        }
    }
}
