//! C19: reference corpus.  For every supported message type frames produced by the FULL build,
//! with the outcome of decoding them in the full build (class, number, digest of the Debug rendering).

use crate::drv_frame::digest;
use crate::frames::*;
use crate::util::*;
use rtcm_rs::prelude::*;
use serde_json::json;

pub fn rec_corpus(a: &Args, out: &mut Out) {
    let mut r = rng(a.seed(), 19);
    let per_type = a.num("per_type", 2) as usize;
    let nums = supported_numbers();
    let hex_path = a.str("hex", "corpus.hex");
    let mut hex = String::new();
    let mut results = vec![];
    for &n in &nums {
        let mut made = 0;
        let mut tries = 0;
        while made < per_type && tries < 50 {
            tries += 1;
            if let Some(f) = lib_frame(&mut r, n) {
                let obs = guarded(|| match next_msg_frame(&f) {
                    (_, Some(mf)) => {
                        let m = mf.get_message();
                        let class = match &m {
                            Message::Empty => "Empty",
                            Message::Corrupt => "Corrupt",
                            Message::MsgNotSupported(_) => "MsgNotSupported",
                            _ => "Typed",
                        };
                        Some((class.to_string(), m.number().map(|x| x as i64).unwrap_or(-1), digest(&format!("{:?}", m))))
                    }
                    _ => None,
                });
                if let Ok(Some((class, num, dg))) = obs {
                    if class == "Typed" {
                        hex.push_str(&f.iter().map(|b| format!("{:02x}", b)).collect::<String>());
                        hex.push('\n');
                        results.push(json!([n, class, num, dg]));
                        made += 1;
                    }
                }
            }
        }
    }
    std::fs::write(&hex_path, hex).expect("write corpus");
    out.emit(json!({"ev": "Ref", "supported": nums, "results": results}));
}
