//! C19: reference corpus.  For every supported message type frames produced by the FULL build,
//! with the outcome of decoding them in the full build (class, number, digest of the Debug rendering).

use crate::drv_frame::digest;
use crate::frames::*;
use crate::util::*;
use rtcm_rs::prelude::*;
use serde_json::json;

pub fn rec_corpus(a: &Args, out: &mut Out) {
    let mut r = rng(a.seed(), 19);
    let per_type = a.num("per_type", 2) as usize;
    let nums = supported_numbers();
    let hex_path = a.str("hex", "corpus.hex");
    let mut hex = String::new();
    let mut results = vec![];
    for &n in &nums {
        let mut made = 0;
        let mut tries = 0;
        while made < per_type && tries < 50 {
            tries += 1;
            if let Some(f) = lib_frame(&mut r, n) {
                let obs = guarded(|| match next_msg_frame(&f) {
                    (_, Some(mf)) => {
                        let m = mf.get_message();
                        let class = match &m {
                            Message::Empty => "Empty",
                            Message::Corrupt => "Corrupt",
                            Message::MsgNotSupported(_) => "MsgNotSupported",
                            _ => "Typed",
                        };
                        Some((class.to_string(), m.number().map(|x| x as i64).unwrap_or(-1), digest(&format!("{:?}", m))))
                    }
                    _ => None,
                });
                if let Ok(Some((class, num, dg))) = obs {
                    if class == "Typed" {
                        hex.push_str(&f.iter().map(|b| format!("{:02x}", b)).collect::<String>());
                        hex.push('\n');
                        results.push(json!([n, class, num, dg]));
                        made += 1;
                    }
                }
            }
        }
    }
    // synthetic short / padded frames of every supported and a few unsupported numbers (C19: a reduced build must call
    // every number it was not built for "unsupported", whatever the frame looks like, and treat its own like the full build)
    if a.num("synthetic", 0) == 1 {
        let mut ns: Vec<u16> = nums.clone();
        ns.extend([0u16, 1, 1000, 1018, 1070, 1078, 1138, 2000, 4095]);
        for &n in &ns {
            for (len, fill) in [(2usize, 0u8), (3, 0xFF), (21, 0), (64, 0x55)] {
                let mut p = vec![fill; len];
                p[0] = (n >> 4) as u8;
                p[1] = ((n & 0xF) << 4) as u8 | (fill & 0x0F);
                let f = mk_frame(&p, 0);
                let obs = guarded(|| match next_msg_frame(&f) {
                    (_, Some(mf)) => {
                        let m = mf.get_message();
                        let class = match &m {
                            Message::Empty => "Empty",
                            Message::Corrupt => "Corrupt",
                            Message::MsgNotSupported(_) => "MsgNotSupported",
                            _ => "Typed",
                        };
                        Some((class.to_string(), m.number().map(|x| x as i64).unwrap_or(-1), digest(&format!("{:?}", m))))
                    }
                    _ => None,
                });
                if let Ok(Some((class, num, dg))) = obs {
                    hex.push_str(&f.iter().map(|b| format!("{:02x}", b)).collect::<String>());
                    hex.push('\n');
                    results.push(json!([n, class, num, dg]));
                }
            }
        }
    }
    std::fs::write(&hex_path, hex).expect("write corpus");
    out.emit(json!({"ev": "Ref", "supported": nums, "results": results}));
}
