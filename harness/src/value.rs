//! A self-describing value tree with its own serde Serializer / Deserializer.
//!
//! `serde_json::Value` cannot carry NaN / +-inf and forgets integer widths, so the
//! harness has its own tree.  `Message -> V` gives the shape of any message type,
//! mutating leaves and `V -> Message` gives "every Message value constructible through
//! the public API".  `canon()` renders a tree injectively as JSON made of strings,
//! arrays and objects only, so TLC can compare messages structurally.

use serde::de::{self, DeserializeSeed, EnumAccess, MapAccess, SeqAccess, VariantAccess, Visitor};
use serde::ser::{self, Serialize};
use serde_json::{json, Value as J};
use std::fmt;

#[derive(Clone, Debug)]
pub enum V {
    Bool(bool),
    Int { signed: bool, bits: u8, v: i128 },
    F32(f32),
    F64(f64),
    Char(char),
    Str(String),
    Unit,
    None,
    Some(Box<V>),
    Seq(Vec<V>),
    Tuple(Vec<V>),
    Struct(String, Vec<(String, V)>),
    Newtype(String, Box<V>),
    TupleStruct(String, Vec<V>),
    UnitVariant(String, String),
    NewtypeVariant(String, String, Box<V>),
}

impl V {
    pub fn u(bits: u8, v: u64) -> V {
        V::Int { signed: false, bits, v: v as i128 }
    }
    /// bit-exact structural equality (NaN == NaN, 0.0 != -0.0)
    pub fn same(&self, o: &V) -> bool {
        self.canon() == o.canon()
    }
    /// injective rendering: leaves are strings, containers are arrays / objects
    pub fn canon(&self) -> J {
        match self {
            V::Bool(b) => J::String(format!("b:{}", *b as u8)),
            V::Int { signed, bits, v } => {
                J::String(format!("{}{}:{}", if *signed { "i" } else { "u" }, bits, v))
            }
            V::F32(f) => J::String(format!("f32:{:08x}", f.to_bits())),
            V::F64(f) => J::String(format!("f64:{:016x}", f.to_bits())),
            V::Char(c) => J::String(format!("c:{}", *c as u32)),
            V::Str(s) => J::String(format!(
                "s:{}",
                s.chars().map(|c| format!("{:x}", c as u32)).collect::<Vec<_>>().join(".")
            )),
            V::Unit => J::String("unit".into()),
            V::None => J::String("none".into()),
            V::Some(x) => json!({ "some": x.canon() }),
            V::Seq(xs) | V::Tuple(xs) | V::TupleStruct(_, xs) => {
                J::Array(xs.iter().map(|x| x.canon()).collect())
            }
            V::Struct(_, fs) => {
                let mut m = serde_json::Map::new();
                for (k, v) in fs {
                    m.insert(k.clone(), v.canon());
                }
                if m.is_empty() {
                    J::String("emptystruct".into())
                } else {
                    J::Object(m)
                }
            }
            V::Newtype(_, x) => x.canon(),
            V::UnitVariant(_, n) => J::String(format!("v:{}", n)),
            V::NewtypeVariant(_, n, x) => json!({ "variant": n, "value": x.canon() }),
        }
    }
    pub fn variant_name(&self) -> Option<&str> {
        match self {
            V::UnitVariant(_, n) | V::NewtypeVariant(_, n, _) => Some(n),
            _ => None,
        }
    }
    pub fn field(&self, name: &str) -> Option<&V> {
        match self {
            V::Struct(_, fs) => fs.iter().find(|(k, _)| k == name).map(|(_, v)| v),
            V::Newtype(_, x) | V::NewtypeVariant(_, _, x) => x.field(name),
            _ => None,
        }
    }
    pub fn field_mut(&mut self, name: &str) -> Option<&mut V> {
        match self {
            V::Struct(_, fs) => fs.iter_mut().find(|(k, _)| k == name).map(|(_, v)| v),
            V::Newtype(_, x) | V::NewtypeVariant(_, _, x) => x.field_mut(name),
            _ => None,
        }
    }
    pub fn as_i128(&self) -> Option<i128> {
        match self {
            V::Int { v, .. } => Some(*v),
            V::Newtype(_, x) => x.as_i128(),
            _ => None,
        }
    }
    pub fn as_seq(&self) -> Option<&Vec<V>> {
        match self {
            V::Seq(xs) => Some(xs),
            V::Newtype(_, x) => x.as_seq(),
            _ => None,
        }
    }
    pub fn as_seq_mut(&mut self) -> Option<&mut Vec<V>> {
        match self {
            V::Seq(xs) => Some(xs),
            V::Newtype(_, x) => x.as_seq_mut(),
            _ => None,
        }
    }
    /// visit every node (pre-order) with its path
    pub fn walk<'a>(&'a self, path: &mut Vec<String>, f: &mut dyn FnMut(&[String], &'a V)) {
        f(path, self);
        match self {
            V::Some(x) | V::Newtype(_, x) | V::NewtypeVariant(_, _, x) => x.walk(path, f),
            V::Seq(xs) | V::Tuple(xs) | V::TupleStruct(_, xs) => {
                for (i, x) in xs.iter().enumerate() {
                    path.push(i.to_string());
                    x.walk(path, f);
                    path.pop();
                }
            }
            V::Struct(_, fs) => {
                for (k, x) in fs {
                    path.push(k.clone());
                    x.walk(path, f);
                    path.pop();
                }
            }
            _ => {}
        }
    }
    pub fn walk_mut(&mut self, path: &mut Vec<String>, f: &mut dyn FnMut(&[String], &mut V)) {
        f(path, self);
        match self {
            V::Some(x) | V::Newtype(_, x) | V::NewtypeVariant(_, _, x) => x.walk_mut(path, f),
            V::Seq(xs) | V::Tuple(xs) | V::TupleStruct(_, xs) => {
                for (i, x) in xs.iter_mut().enumerate() {
                    path.push(i.to_string());
                    x.walk_mut(path, f);
                    path.pop();
                }
            }
            V::Struct(_, fs) => {
                for (k, x) in fs {
                    path.push(k.clone());
                    x.walk_mut(path, f);
                    path.pop();
                }
            }
            _ => {}
        }
    }
    /// paths of all non-finite float leaves
    pub fn nonfinite(&self) -> Vec<String> {
        let mut out = vec![];
        let mut p = vec![];
        self.walk(&mut p, &mut |path, v| match v {
            V::F32(f) if !f.is_finite() => out.push(path.join(".")),
            V::F64(f) if !f.is_finite() => out.push(path.join(".")),
            _ => {}
        });
        out
    }
}

// ---------------------------------------------------------------- errors

#[derive(Debug, Clone)]
pub struct VErr(pub String);
impl fmt::Display for VErr {
    fn fmt(&self, f: &mut fmt::Formatter<'_>) -> fmt::Result {
        f.write_str(&self.0)
    }
}
impl std::error::Error for VErr {}
impl ser::Error for VErr {
    fn custom<T: fmt::Display>(msg: T) -> Self {
        VErr(msg.to_string())
    }
}
impl de::Error for VErr {
    fn custom<T: fmt::Display>(msg: T) -> Self {
        VErr(msg.to_string())
    }
}

// ---------------------------------------------------------------- serializer

pub struct VSer;
pub fn to_v<T: Serialize>(t: &T) -> Result<V, VErr> {
    t.serialize(VSer)
}

pub struct SeqSer {
    items: Vec<V>,
    kind: u8,
    name: String,
    variant: String,
}
pub struct StructSer {
    name: String,
    fields: Vec<(String, V)>,
}
pub struct MapSer {
    fields: Vec<(String, V)>,
    key: Option<String>,
}

impl ser::Serializer for VSer {
    type Ok = V;
    type Error = VErr;
    type SerializeSeq = SeqSer;
    type SerializeTuple = SeqSer;
    type SerializeTupleStruct = SeqSer;
    type SerializeTupleVariant = SeqSer;
    type SerializeMap = MapSer;
    type SerializeStruct = StructSer;
    type SerializeStructVariant = StructSer;

    fn serialize_bool(self, v: bool) -> Result<V, VErr> {
        Ok(V::Bool(v))
    }
    fn serialize_i8(self, v: i8) -> Result<V, VErr> {
        Ok(V::Int { signed: true, bits: 8, v: v as i128 })
    }
    fn serialize_i16(self, v: i16) -> Result<V, VErr> {
        Ok(V::Int { signed: true, bits: 16, v: v as i128 })
    }
    fn serialize_i32(self, v: i32) -> Result<V, VErr> {
        Ok(V::Int { signed: true, bits: 32, v: v as i128 })
    }
    fn serialize_i64(self, v: i64) -> Result<V, VErr> {
        Ok(V::Int { signed: true, bits: 64, v: v as i128 })
    }
    fn serialize_u8(self, v: u8) -> Result<V, VErr> {
        Ok(V::Int { signed: false, bits: 8, v: v as i128 })
    }
    fn serialize_u16(self, v: u16) -> Result<V, VErr> {
        Ok(V::Int { signed: false, bits: 16, v: v as i128 })
    }
    fn serialize_u32(self, v: u32) -> Result<V, VErr> {
        Ok(V::Int { signed: false, bits: 32, v: v as i128 })
    }
    fn serialize_u64(self, v: u64) -> Result<V, VErr> {
        Ok(V::Int { signed: false, bits: 64, v: v as i128 })
    }
    fn serialize_f32(self, v: f32) -> Result<V, VErr> {
        Ok(V::F32(v))
    }
    fn serialize_f64(self, v: f64) -> Result<V, VErr> {
        Ok(V::F64(v))
    }
    fn serialize_char(self, v: char) -> Result<V, VErr> {
        Ok(V::Char(v))
    }
    fn serialize_str(self, v: &str) -> Result<V, VErr> {
        Ok(V::Str(v.to_string()))
    }
    fn serialize_bytes(self, v: &[u8]) -> Result<V, VErr> {
        Ok(V::Seq(v.iter().map(|b| V::u(8, *b as u64)).collect()))
    }
    fn serialize_none(self) -> Result<V, VErr> {
        Ok(V::None)
    }
    fn serialize_some<T: ?Sized + Serialize>(self, value: &T) -> Result<V, VErr> {
        Ok(V::Some(Box::new(value.serialize(VSer)?)))
    }
    fn serialize_unit(self) -> Result<V, VErr> {
        Ok(V::Unit)
    }
    fn serialize_unit_struct(self, _name: &'static str) -> Result<V, VErr> {
        Ok(V::Unit)
    }
    fn serialize_unit_variant(self, name: &'static str, _i: u32, variant: &'static str) -> Result<V, VErr> {
        Ok(V::UnitVariant(name.into(), variant.into()))
    }
    fn serialize_newtype_struct<T: ?Sized + Serialize>(self, name: &'static str, value: &T) -> Result<V, VErr> {
        Ok(V::Newtype(name.into(), Box::new(value.serialize(VSer)?)))
    }
    fn serialize_newtype_variant<T: ?Sized + Serialize>(
        self,
        name: &'static str,
        _i: u32,
        variant: &'static str,
        value: &T,
    ) -> Result<V, VErr> {
        Ok(V::NewtypeVariant(name.into(), variant.into(), Box::new(value.serialize(VSer)?)))
    }
    fn serialize_seq(self, _len: Option<usize>) -> Result<SeqSer, VErr> {
        Ok(SeqSer { items: vec![], kind: 0, name: String::new(), variant: String::new() })
    }
    fn serialize_tuple(self, _len: usize) -> Result<SeqSer, VErr> {
        Ok(SeqSer { items: vec![], kind: 1, name: String::new(), variant: String::new() })
    }
    fn serialize_tuple_struct(self, name: &'static str, _len: usize) -> Result<SeqSer, VErr> {
        Ok(SeqSer { items: vec![], kind: 2, name: name.into(), variant: String::new() })
    }
    fn serialize_tuple_variant(self, name: &'static str, _i: u32, variant: &'static str, _len: usize) -> Result<SeqSer, VErr> {
        Ok(SeqSer { items: vec![], kind: 3, name: name.into(), variant: variant.into() })
    }
    fn serialize_map(self, _len: Option<usize>) -> Result<MapSer, VErr> {
        Ok(MapSer { fields: vec![], key: None })
    }
    fn serialize_struct(self, name: &'static str, _len: usize) -> Result<StructSer, VErr> {
        Ok(StructSer { name: name.into(), fields: vec![] })
    }
    fn serialize_struct_variant(self, name: &'static str, _i: u32, _variant: &'static str, _len: usize) -> Result<StructSer, VErr> {
        Ok(StructSer { name: name.into(), fields: vec![] })
    }
}
impl SeqSer {
    fn finish(self) -> V {
        match self.kind {
            0 => V::Seq(self.items),
            1 => V::Tuple(self.items),
            2 => V::TupleStruct(self.name, self.items),
            _ => V::NewtypeVariant(self.name, self.variant, Box::new(V::Tuple(self.items))),
        }
    }
}
impl ser::SerializeSeq for SeqSer {
    type Ok = V;
    type Error = VErr;
    fn serialize_element<T: ?Sized + Serialize>(&mut self, value: &T) -> Result<(), VErr> {
        self.items.push(value.serialize(VSer)?);
        Ok(())
    }
    fn end(self) -> Result<V, VErr> {
        Ok(self.finish())
    }
}
impl ser::SerializeTuple for SeqSer {
    type Ok = V;
    type Error = VErr;
    fn serialize_element<T: ?Sized + Serialize>(&mut self, value: &T) -> Result<(), VErr> {
        self.items.push(value.serialize(VSer)?);
        Ok(())
    }
    fn end(self) -> Result<V, VErr> {
        Ok(self.finish())
    }
}
impl ser::SerializeTupleStruct for SeqSer {
    type Ok = V;
    type Error = VErr;
    fn serialize_field<T: ?Sized + Serialize>(&mut self, value: &T) -> Result<(), VErr> {
        self.items.push(value.serialize(VSer)?);
        Ok(())
    }
    fn end(self) -> Result<V, VErr> {
        Ok(self.finish())
    }
}
impl ser::SerializeTupleVariant for SeqSer {
    type Ok = V;
    type Error = VErr;
    fn serialize_field<T: ?Sized + Serialize>(&mut self, value: &T) -> Result<(), VErr> {
        self.items.push(value.serialize(VSer)?);
        Ok(())
    }
    fn end(self) -> Result<V, VErr> {
        Ok(self.finish())
    }
}
impl ser::SerializeMap for MapSer {
    type Ok = V;
    type Error = VErr;
    fn serialize_key<T: ?Sized + Serialize>(&mut self, key: &T) -> Result<(), VErr> {
        match key.serialize(VSer)? {
            V::Str(s) => {
                self.key = Some(s);
                Ok(())
            }
            o => Err(VErr(format!("non-string map key {:?}", o))),
        }
    }
    fn serialize_value<T: ?Sized + Serialize>(&mut self, value: &T) -> Result<(), VErr> {
        let k = self.key.take().unwrap();
        self.fields.push((k, value.serialize(VSer)?));
        Ok(())
    }
    fn end(self) -> Result<V, VErr> {
        Ok(V::Struct("map".into(), self.fields))
    }
}
impl ser::SerializeStruct for StructSer {
    type Ok = V;
    type Error = VErr;
    fn serialize_field<T: ?Sized + Serialize>(&mut self, key: &'static str, value: &T) -> Result<(), VErr> {
        self.fields.push((key.into(), value.serialize(VSer)?));
        Ok(())
    }
    fn end(self) -> Result<V, VErr> {
        Ok(V::Struct(self.name, self.fields))
    }
}
impl ser::SerializeStructVariant for StructSer {
    type Ok = V;
    type Error = VErr;
    fn serialize_field<T: ?Sized + Serialize>(&mut self, key: &'static str, value: &T) -> Result<(), VErr> {
        self.fields.push((key.into(), value.serialize(VSer)?));
        Ok(())
    }
    fn end(self) -> Result<V, VErr> {
        Ok(V::Struct(self.name, self.fields))
    }
}

// ---------------------------------------------------------------- deserializer

pub fn from_v<'de, T: de::Deserialize<'de>>(v: V) -> Result<T, VErr> {
    T::deserialize(v)
}

struct SeqDe(std::vec::IntoIter<V>);
impl<'de> SeqAccess<'de> for SeqDe {
    type Error = VErr;
    fn next_element_seed<T: DeserializeSeed<'de>>(&mut self, seed: T) -> Result<Option<T::Value>, VErr> {
        match self.0.next() {
            Some(v) => seed.deserialize(v).map(Some),
            None => Ok(None),
        }
    }
    fn size_hint(&self) -> Option<usize> {
        Some(self.0.len())
    }
}
struct MapDe {
    it: std::vec::IntoIter<(String, V)>,
    val: Option<V>,
}
impl<'de> MapAccess<'de> for MapDe {
    type Error = VErr;
    fn next_key_seed<K: DeserializeSeed<'de>>(&mut self, seed: K) -> Result<Option<K::Value>, VErr> {
        match self.it.next() {
            Some((k, v)) => {
                self.val = Some(v);
                seed.deserialize(V::Str(k)).map(Some)
            }
            None => Ok(None),
        }
    }
    fn next_value_seed<S: DeserializeSeed<'de>>(&mut self, seed: S) -> Result<S::Value, VErr> {
        seed.deserialize(self.val.take().unwrap())
    }
}
struct EnumDe {
    variant: String,
    payload: Option<V>,
}
impl<'de> EnumAccess<'de> for EnumDe {
    type Error = VErr;
    type Variant = VariantDe;
    fn variant_seed<S: DeserializeSeed<'de>>(self, seed: S) -> Result<(S::Value, VariantDe), VErr> {
        let v = seed.deserialize(V::Str(self.variant))?;
        Ok((v, VariantDe(self.payload)))
    }
}
struct VariantDe(Option<V>);
impl<'de> VariantAccess<'de> for VariantDe {
    type Error = VErr;
    fn unit_variant(self) -> Result<(), VErr> {
        Ok(())
    }
    fn newtype_variant_seed<T: DeserializeSeed<'de>>(self, seed: T) -> Result<T::Value, VErr> {
        match self.0 {
            Some(v) => seed.deserialize(v),
            None => Err(VErr("expected newtype variant payload".into())),
        }
    }
    fn tuple_variant<Vi: Visitor<'de>>(self, _len: usize, visitor: Vi) -> Result<Vi::Value, VErr> {
        match self.0 {
            Some(V::Tuple(xs)) | Some(V::Seq(xs)) => visitor.visit_seq(SeqDe(xs.into_iter())),
            _ => Err(VErr("expected tuple variant".into())),
        }
    }
    fn struct_variant<Vi: Visitor<'de>>(self, _f: &'static [&'static str], visitor: Vi) -> Result<Vi::Value, VErr> {
        match self.0 {
            Some(V::Struct(_, fs)) => visitor.visit_map(MapDe { it: fs.into_iter(), val: None }),
            _ => Err(VErr("expected struct variant".into())),
        }
    }
}

impl<'de> de::Deserializer<'de> for V {
    type Error = VErr;

    fn deserialize_any<Vi: Visitor<'de>>(self, visitor: Vi) -> Result<Vi::Value, VErr> {
        match self {
            V::Bool(b) => visitor.visit_bool(b),
            V::Int { signed, v, .. } => {
                if signed || v < 0 {
                    if v >= i64::MIN as i128 && v <= i64::MAX as i128 {
                        visitor.visit_i64(v as i64)
                    } else {
                        visitor.visit_i128(v)
                    }
                } else if v <= u64::MAX as i128 {
                    visitor.visit_u64(v as u64)
                } else {
                    visitor.visit_u128(v as u128)
                }
            }
            V::F32(f) => visitor.visit_f32(f),
            V::F64(f) => visitor.visit_f64(f),
            V::Char(c) => visitor.visit_char(c),
            V::Str(s) => visitor.visit_string(s),
            V::Unit => visitor.visit_unit(),
            V::None => visitor.visit_none(),
            V::Some(x) => visitor.visit_some(*x),
            V::Seq(xs) | V::Tuple(xs) | V::TupleStruct(_, xs) => visitor.visit_seq(SeqDe(xs.into_iter())),
            V::Struct(_, fs) => visitor.visit_map(MapDe { it: fs.into_iter(), val: None }),
            V::Newtype(_, x) => visitor.visit_newtype_struct(*x),
            V::UnitVariant(_, n) => visitor.visit_enum(EnumDe { variant: n, payload: None }),
            V::NewtypeVariant(_, n, x) => visitor.visit_enum(EnumDe { variant: n, payload: Some(*x) }),
        }
    }
    fn deserialize_option<Vi: Visitor<'de>>(self, visitor: Vi) -> Result<Vi::Value, VErr> {
        match self {
            V::None | V::Unit => visitor.visit_none(),
            V::Some(x) => visitor.visit_some(*x),
            other => visitor.visit_some(other),
        }
    }
    fn deserialize_newtype_struct<Vi: Visitor<'de>>(self, _name: &'static str, visitor: Vi) -> Result<Vi::Value, VErr> {
        match self {
            V::Newtype(_, x) => visitor.visit_newtype_struct(*x),
            other => visitor.visit_newtype_struct(other),
        }
    }
    fn deserialize_enum<Vi: Visitor<'de>>(
        self,
        _name: &'static str,
        _variants: &'static [&'static str],
        visitor: Vi,
    ) -> Result<Vi::Value, VErr> {
        match self {
            V::UnitVariant(_, n) => visitor.visit_enum(EnumDe { variant: n, payload: None }),
            V::NewtypeVariant(_, n, x) => visitor.visit_enum(EnumDe { variant: n, payload: Some(*x) }),
            V::Str(n) => visitor.visit_enum(EnumDe { variant: n, payload: None }),
            o => Err(VErr(format!("expected enum, got {:?}", o))),
        }
    }
    fn deserialize_f32<Vi: Visitor<'de>>(self, visitor: Vi) -> Result<Vi::Value, VErr> {
        match self {
            V::F32(f) => visitor.visit_f32(f),
            V::F64(f) => visitor.visit_f32(f as f32),
            o => o.deserialize_any(visitor),
        }
    }
    fn deserialize_f64<Vi: Visitor<'de>>(self, visitor: Vi) -> Result<Vi::Value, VErr> {
        match self {
            V::F32(f) => visitor.visit_f64(f as f64),
            V::F64(f) => visitor.visit_f64(f),
            o => o.deserialize_any(visitor),
        }
    }
    serde::forward_to_deserialize_any! {
        bool i8 i16 i32 i64 i128 u8 u16 u32 u64 u128 char str string bytes byte_buf
        unit unit_struct seq tuple tuple_struct map struct identifier ignored_any
    }
}
