//! C20: serde round trips through two self-describing data models: the harness's own value tree
//! and serde_json.

use crate::drv_decode::{hostile_frames, structured_hostile};
use crate::drv_frame::digest;
use crate::frames::*;
use crate::msgen::*;
use crate::util::*;
use crate::value::*;
use rand::Rng;
use rtcm_rs::prelude::*;
use rtcm_rs::util::{ArrayString, Df88591String};
use serde_json::json;

fn emit(out: &mut Out, m: &Message, src: &str) {
    let v = msg_to_v(m);
    if !v.nonfinite().is_empty() {
        return; // the property quantifies over messages whose floats are not NaN (infinities cannot be written by JSON either)
    }
    let variant = v.variant_name().unwrap_or("?").to_string();
    let tin = digest(&v.canon().to_string());
    // via the value tree
    let back = guarded(|| v_to_msg(&v));
    let (de, tout, eq) = match &back {
        Ok(Ok(m2)) => ("ok".to_string(), digest(&msg_to_v(m2).canon().to_string()), m2 == m),
        Ok(Err(e)) => (format!("err:{}", e), String::new(), false),
        Err(p) => (format!("panic:{}", p), String::new(), false),
    };
    out.emit(json!({"ev": "Serde", "variant": variant, "via": "tree", "src": src, "ser": "ok", "de": de, "tree_in": tin, "tree_out": tout, "eq": eq}));
    // via serde_json
    let js = guarded(|| serde_json::to_string(m));
    match js {
        Ok(Ok(s)) => {
            let back = guarded(|| serde_json::from_str::<Message>(&s));
            let (de, tout, eq) = match &back {
                Ok(Ok(m2)) => ("ok".to_string(), digest(&msg_to_v(m2).canon().to_string()), m2 == m),
                Ok(Err(e)) => (format!("err:{}", e), String::new(), false),
                Err(p) => (format!("panic:{}", p), String::new(), false),
            };
            out.emit(json!({"ev": "Serde", "variant": variant, "via": "json", "src": src, "ser": "ok", "de": de, "tree_in": tin, "tree_out": tout, "eq": eq}));
        }
        Ok(Err(e)) => out.emit(json!({"ev": "Serde", "variant": variant, "via": "json", "src": src, "ser": format!("err:{}", e), "de": "", "tree_in": tin, "tree_out": "", "eq": false})),
        Err(p) => out.emit(json!({"ev": "Serde", "variant": variant, "via": "json", "src": src, "ser": format!("panic:{}", p), "de": "", "tree_in": tin, "tree_out": "", "eq": false})),
    }
}

/// signal descriptors set through the typed public API (SigId::new), not through serde: out-of-table bands and attributes
fn with_sig(m: &Message, k: usize, band: u8, attr: char) -> Option<Message> {
    use rtcm_rs::msg::*;
    macro_rules! msm {
        ($t:ident, $sid:ident) => {{
            let mut t = $t.clone();
            let n = t.data_segment.signal_data.len();
            if n == 0 {
                return None;
            }
            t.data_segment.signal_data.as_mut_slice()[k % n].signal_id = $sid::new(band, attr);
            t
        }};
    }
    Some(match m {
        Message::Msg1059(t) => {
            let mut t = t.clone();
            let n = t.biases.len();
            if n == 0 {
                return None;
            }
            t.biases.as_mut_slice()[k % n].signal_id = GpsSigId::new(band, attr);
            Message::Msg1059(t)
        }
        Message::Msg1065(t) => {
            let mut t = t.clone();
            let n = t.biases.len();
            if n == 0 {
                return None;
            }
            t.biases.as_mut_slice()[k % n].signal_id = GloSigId::new(band, attr);
            Message::Msg1065(t)
        }
        Message::Msg1230(t) => {
            let mut t = t.clone();
            let n = t.glo_code_phase_biases.len();
            if n == 0 {
                return None;
            }
            t.glo_code_phase_biases.as_mut_slice()[k % n].signal_id = GloSigId::new(band, attr);
            Message::Msg1230(t)
        }
        Message::Msg1074(t) => Message::Msg1074(msm!(t, GpsSigId)),
        Message::Msg1077(t) => Message::Msg1077(msm!(t, GpsSigId)),
        Message::Msg1084(t) => Message::Msg1084(msm!(t, GloSigId)),
        Message::Msg1095(t) => Message::Msg1095(msm!(t, GalSigId)),
        Message::Msg1106(t) => Message::Msg1106(msm!(t, SbasSigId)),
        Message::Msg1117(t) => Message::Msg1117(msm!(t, QzssSigId)),
        Message::Msg1124(t) => Message::Msg1124(msm!(t, BdsSigId)),
        Message::Msg1131(t) => Message::Msg1131(msm!(t, NavicSigId)),
        _ => return None,
    })
}

pub fn rec_serde(a: &Args, out: &mut Out) {
    let mut r = rng(a.seed(), 20);
    let per_type = a.num("per_type", 6) as usize;
    let nums = supported_numbers();
    for &num in &nums {
        for _ in 0..per_type {
            if let Some(t) = template(&mut r, num) {
                emit(out, &t, "generated");
                let m = mutated_message(&mut r, &t, false);
                emit(out, &m, "mutant");
            }
        }
        // messages decoded from hostile frames
        let mut frames = hostile_frames(&mut r, num, 6);
        frames.extend(structured_hostile(&mut r, num).into_iter().take(6));
        for (f, _) in frames {
            if let Ok(Some(m)) = guarded(|| decode_frame(&f)) {
                if m.number().is_some() {
                    emit(out, &m, "hostile-decoded");
                }
            }
        }
    }
    // signal descriptors outside the tables, constructed through SigId::new (one-, two- and three-digit bands, attributes that
    // are digits, quotes, NUL, non-ASCII): they are ordinary public values and must survive like any other
    let bands = [0u8, 1, 3, 9, 10, 11, 19, 25, 99, 100, 101, 199, 255];
    let attrs = ['C', 'X', '\u{0}', '1', '0', '"', '\\', ' ', 'é', '\u{a4}', '漢', '\u{10ffff}', ','];
    for &num in &[1059u16, 1065, 1230, 1074, 1077, 1084, 1095, 1106, 1117, 1124, 1131] {
        if !nums.contains(&num) {
            continue;
        }
        let mut k = 0usize;
        for _ in 0..6 {
            if let Some(t) = template(&mut r, num) {
                for (i, &b) in bands.iter().enumerate() {
                    let a = attrs[(i + k) % attrs.len()];
                    if let Some(m) = with_sig(&t, k, b, a) {
                        emit(out, &m, "sigid-api");
                    }
                    k += 1;
                }
            }
        }
    }
    // text at and around the capacities
    for k in 0..48usize {
        let n = [0usize, 1, 15, 30, 31, 31, 31, 8][k % 8];
        let style = k % 9;
        let s: String = (0..n)
            .map(|i| match style {
                0 => char::from_u32(0xC0 + ((i * 7 + k) % 0x3F) as u32).unwrap(), // Latin-1 high half
                1 => (b'a' + (i % 26) as u8) as char,
                2 => ['é', 'ÿ', '\u{a4}', '\u{80}', 'A'][(i + k) % 5],
                3 => '\u{ff}',
                5 => if i % 2 == 0 { char::from_u32(0xC2 + ((i + k) % 30) as u32).unwrap() } else { char::from_u32(0x80 + ((i * 5 + k) % 64) as u32).unwrap() },
                6 => if (i + k) % 4 == 0 { '\u{0}' } else { (b'a' + (i % 26) as u8) as char },
                7 => if i == 0 || i + 1 == n { [' ', '\t', '\u{a0}', '\n'][k % 4] } else { (b'a' + (i % 26) as u8) as char },
                8 => [' ', '\u{a0}', '\r', '\n'][(i + k) % 4],
                _ => ['\u{100}', '漢', '\u{0}', 'x'][(i + k) % 4],
            })
            .collect();
        for num in [1007u16, 1008, 1033, 1021, 1300, 1302] {
            if let Some(t) = template(&mut r, num) {
                let mut v = msg_to_v(&t);
                // set every descriptor string of the message through From<&str>-equivalent content
                let stored: String = Df88591String::<31>::from(s.as_str()).chars().collect();
                let mut p = vec![];
                v.walk_mut(&mut p, &mut |_path, node| {
                    if let V::Str(x) = node {
                        *x = stored.clone();
                    }
                });
                if let Ok(m) = v_to_msg(&v) {
                    emit(out, &m, "descriptor-text");
                }
            }
        }
        if let Some(Message::Msg1029(t)) = template(&mut r, 1029) {
            let mut t = t.clone();
            // more characters than message 1029 can announce (128..255) are still a value of the text type
            for n in [128usize, 200, 255] {
                let mut t2 = t.clone();
                t2.text_str = ArrayString::from("x".repeat(n - 1 - k % 2).as_str());
                emit(out, &Message::Msg1029(t2), "utf8-text");
            }
            let txt: String = match k % 4 {
                0 => "é".repeat(127),
                1 => "a".repeat(127),
                2 => "漢".repeat(85),
                _ => s.clone(),
            };
            t.text_str = ArrayString::from(txt.as_str());
            emit(out, &Message::Msg1029(t.clone()), "utf8-text");
            // white space at the ends (blank, tab, CR/LF, NBSP, ideographic space), only white space, control characters
            let ws = [" ", "\n", "\r\n", "\t", "\u{a0}", "\u{3000}", "  ", "\u{0}", "\u{7f}", "\u{85}", "\u{2028}"];
            let core = ["text", "", "é", "a b"][k % 4];
            let txt2 = match k % 3 {
                0 => format!("{}{}", core, ws[k % ws.len()]),
                1 => format!("{}{}", ws[k % ws.len()], core),
                _ => format!("{}{}{}", ws[(k + 3) % ws.len()], core, ws[k % ws.len()]),
            };
            t.text_str = ArrayString::from(txt2.as_str());
            emit(out, &Message::Msg1029(t), "utf8-text");
        }
    }
    let _ = r.gen::<u8>();
}
