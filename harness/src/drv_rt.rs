//! C01: encode/decode normal form.  Sessions A (message -> frame -> message -> frame -> message)
//! and B (hostile frame -> message -> frame -> message).  Only observations are recorded.

use crate::drv_decode::*;
use crate::drv_frame::digest;
use crate::frames::*;
use crate::msgen::*;
use crate::util::*;
use crate::value::*;
use rand::Rng;
use rtcm_rs::prelude::*;
use serde_json::{json, Value as J};

use crate::special_msm::sig_of;

/// key projection of every list of structs in a message: [path, [[sat, band, attr], ...]]
pub fn list_keys(v: &V) -> J {
    let mut out = vec![];
    let mut p = vec![];
    v.walk(&mut p, &mut |path, node| {
        if let V::Seq(xs) = node {
            if xs.iter().all(|x| matches!(x, V::Struct(..))) && !xs.is_empty() {
                let mut keys = vec![];
                for x in xs {
                    if let V::Struct(_, fs) = x {
                        let mut sat = -1i64;
                        let mut sg = (-1i64, -1i64);
                        for (k, val) in fs {
                            if k.ends_with("satellite_id") {
                                sat = val.as_i128().unwrap_or(-1) as i64;
                            }
                            if k == "signal_id" {
                                sg = sig_of(val);
                            }
                        }
                        keys.push(json!([sat, sg.0, sg.1]));
                    }
                }
                out.push(json!({"path": path.join("."), "keys": keys}));
            }
        }
    });
    J::Array(out)
}

/// [sat, band, attr, f32 bits] entries of a 1059/1065 bias list, else []
pub fn bias_entries(v: &V) -> J {
    let mut out = vec![];
    if let Some(xs) = v.field("biases").and_then(|b| b.as_seq()) {
        for x in xs {
            let sat = x.field("satellite_id").and_then(|s| s.as_i128()).unwrap_or(-1) as i64;
            let sg = x.field("signal_id").map(sig_of).unwrap_or((-1, -1));
            let bits = match x.field("bias_m") {
                Some(V::F32(f)) => format!("{:08x}", f.to_bits()),
                _ => "?".into(),
            };
            out.push(json!([sat, sg.0, sg.1, bits]));
        }
    }
    J::Array(out)
}

/// digest of a message with the bias list removed (so that regrouping can be judged separately)
pub fn digest_without_biases(v: &V) -> String {
    let mut w = v.clone();
    if let Some(b) = w.field_mut("biases") {
        if let Some(xs) = b.as_seq_mut() {
            xs.clear();
        }
    }
    digest(&w.canon().to_string())
}

fn build(m: &Message) -> (String, Vec<u8>) {
    match guarded(|| MessageBuilder::new().build_message(m).map(|f| f.to_vec())) {
        Ok(Ok(f)) => ("ok".into(), f),
        Ok(Err(e)) => (format!("err:{:?}", e), vec![]),
        Err(p) => (format!("panic:{}", p), vec![]),
    }
}
fn decode(f: &[u8]) -> (J, Option<Message>) {
    match guarded(|| decode_frame(f)) {
        Ok(Some(m)) => {
            let v = msg_to_v(&m);
            let mut d = describe_message(&m);
            d["digest"] = json!(digest(&v.canon().to_string()));
            d["digest_nobias"] = json!(digest_without_biases(&v));
            d["entries"] = bias_entries(&v);
            (d, Some(m))
        }
        Ok(None) => (json!({"out": "noframe"}), None),
        Err(p) => (json!({"out": "panic", "panic": p}), None),
    }
}

pub fn rec_roundtrip(a: &Args, out: &mut Out) {
    let mut r = rng(a.seed(), 1);
    let nums = supported_numbers();
    let per_type = a.num("per_type", 12) as usize;
    let hostile = a.num("hostile", 30) as usize;
    // ---- sessions A
    let msgs = crate::drv_build::message_stream(&mut r, &nums, per_type, true);
    for m0 in msgs {
        let v0 = msg_to_v(&m0);
        let variant = v0.variant_name().unwrap_or("?").to_string();
        let (out1, f1) = build(&m0);
        let mut e = json!({"ev": "RtA", "variant": variant, "number": variant_number(&variant), "keys": list_keys(&v0),
            "out1": out1, "f1": bytes_json(&f1)});
        if out1 == "ok" {
            let (d1, m1) = decode(&f1);
            e["d1"] = d1;
            if let Some(m1) = m1 {
                let (out2, f2) = build(&m1);
                e["out2"] = json!(out2);
                e["f2"] = bytes_json(&f2);
                if out2 == "ok" {
                    let (d2, m2) = decode(&f2);
                    e["d2"] = d2;
                    e["eq12"] = json!(m2.map(|m2| m2 == m1).unwrap_or(false));
                }
            }
        }
        out.emit(e);
    }
    // ---- sessions B
    for &num in &nums {
        let mut frames = hostile_frames(&mut r, num, hostile);
        frames.extend(structured_hostile(&mut r, num));
        for (h, tag) in frames {
            let (d, m) = decode(&h);
            let mut e = json!({"ev": "RtB", "tag": tag, "number": num, "h": bytes_json(&h), "d": d});
            if let Some(m) = m {
                if m.number().is_some() {
                    let (o, f) = build(&m);
                    e["out"] = json!(o);
                    e["f"] = bytes_json(&f);
                    if o == "ok" {
                        let (d2, m2) = decode(&f);
                        e["d2"] = d2;
                        e["eq"] = json!(m2.map(|m2| m2 == m).unwrap_or(false));
                    }
                    out.emit(e);
                }
            }
        }
    }
    let _ = r.gen::<u8>();
}
