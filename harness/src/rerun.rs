//! `rerun`: re-executes the inputs of recorded events on the CURRENT code and writes fresh events, so that
//! `bin/check <ID> --replay <file>` shows whether a reported violation still occurs.  Supported for the
//! families whose input is a byte string; message-based sessions are re-validated as recorded.

use crate::drv_decode::decode_events;
use crate::drv_frame::*;
use crate::util::*;
use rtcm_rs::prelude::*;
use serde_json::{json, Value as J};

fn bytes_of(v: &J) -> Vec<u8> {
    v.as_array().map(|a| a.iter().map(|x| x.as_u64().unwrap_or(0) as u8).collect()).unwrap_or_default()
}

pub fn rerun(a: &Args, out: &mut Out) {
    let input = std::fs::read_to_string(a.str("in", "")).expect("events");
    let evs: Vec<J> = input.lines().filter_map(|l| serde_json::from_str(l).ok()).collect();
    let mut i = 0;
    while i < evs.len() {
        let e = &evs[i];
        match e["ev"].as_str().unwrap_or("") {
            "FrameNew" => {
                let b = bytes_of(&e["bytes"]);
                let mut o = observe_new(&b, false);
                o["ev"] = json!("FrameNew");
                o["bytes"] = e["bytes"].clone();
                out.emit(o);
            }
            "Sfx" => {
                let f = bytes_of(&e["frame"]);
                let s = bytes_of(&e["sfx"]);
                let mut whole = f.clone();
                whole.extend(&s);
                out.emit(json!({"ev": "Sfx", "frame": e["frame"], "sfx": e["sfx"], "plain": observe_new(&f, true), "with": observe_new(&whole, true)}));
            }
            "Scan" if e.get("buf").is_some() => {
                let b = bytes_of(&e["buf"]);
                let mut o = scan_obs_pub(&b);
                o["ev"] = json!("Scan");
                o["buf"] = e["buf"].clone();
                out.emit(o);
            }
            "Iter" => {
                let buf = bytes_of(&e["buf"]);
                out.emit(iter_obs(&buf));
            }
            "Decode" => {
                let f = bytes_of(&e["frame"]);
                decode_events(&f, e["hooked"].as_bool().unwrap_or(false), out, e["tag"].as_str().unwrap_or("replay"));
                // skip the recorded Parse / DecodeEnd events of this call
                while i + 1 < evs.len() && matches!(evs[i + 1]["ev"].as_str(), Some("Parse") | Some("Consume") | Some("DecodeEnd")) {
                    i += 1;
                }
            }
            "StreamInit" => {
                // re-run the same chunking on the same stream
                let stream = bytes_of(&e["stream"]);
                out.emit(e.clone());
                let mut pending: Vec<u8> = vec![];
                let mut fed = 0usize;
                let mut base = 0usize;
                let mut delivered: Vec<J> = vec![];
                let mut j = i + 1;
                while j < evs.len() && evs[j]["ev"] != "StreamInit" {
                    match evs[j]["ev"].as_str().unwrap_or("") {
                        "Feed" => {
                            let n = (evs[j]["n"].as_u64().unwrap_or(0) as usize).min(stream.len() - fed);
                            pending.extend(&stream[fed..fed + n]);
                            fed += n;
                            out.emit(json!({"ev": "Feed", "n": n}));
                        }
                        "Scan" => {
                            let o = scan_obs_pub(&pending);
                            let consumed = o["consumed"].as_i64().unwrap_or(-1);
                            let at = o["at"].as_i64().unwrap_or(-1);
                            let len = o["len"].as_i64().unwrap_or(0);
                            let mut ev = o.clone();
                            ev["ev"] = json!("Scan");
                            out.emit(ev);
                            if consumed >= 0 && consumed as usize <= pending.len() {
                                if at >= 0 {
                                    delivered.push(json!([base as i64 + at, len]));
                                }
                                pending.drain(..consumed as usize);
                                base += consumed as usize;
                            }
                        }
                        "End" => out.emit(json!({"ev": "End", "delivered": delivered, "base": base})),
                        _ => {}
                    }
                    j += 1;
                }
                i = j - 1;
            }
            "FieldNf" => {
                let id = e["id"].as_str().unwrap_or("");
                let k: i64 = e["k"].as_str().and_then(|x| x.parse().ok()).unwrap_or(0);
                match crate::generated::field_table().iter().find(|f| f.id == id && f.probe.is_some()) {
                    Some(f) => out.emit(crate::drv_fields::fieldnf_event(f, k)),
                    None => out.emit(e.clone()),
                }
            }
            _ => out.emit(e.clone()), // not re-executable: kept as recorded
        }
        i += 1;
    }
    let _ = MessageBuilder::new();
}
