//! C09 / C12 (and the encoder half of C01): build sessions recorded with the put-hook on.
//! One BuildBegin, one Put per Assembler::put call, one BuildEnd per build_message call.

use crate::drv_bits::bits_of;
use crate::frames::*;
use crate::msgen::*;
use crate::util::*;
use crate::value::*;
use rand::rngs::StdRng;
use rand::Rng;
use rtcm_rs::prelude::*;
use rtcm_rs::verif::sink;
use serde_json::{json, Value as J};

pub fn it_kind(it: &str) -> (&'static str, u32) {
    let n = it.rsplit("::").next().unwrap_or("");
    match n {
        "U8" => ("u", 8),
        "U16" => ("u", 16),
        "U32" => ("u", 32),
        "U64" => ("u", 64),
        "U128" => ("u", 128),
        "I8" => ("s", 8),
        "I16" => ("s", 16),
        "I32" => ("s", 32),
        "I64" => ("s", 64),
        "I128" => ("s", 128),
        "SM8" => ("sm", 8),
        "SM16" => ("sm", 16),
        "SM32" => ("sm", 32),
        "SM64" => ("sm", 64),
        "SM128" => ("sm", 128),
        _ => ("?", 0),
    }
}

pub fn err_name(e: &RtcmError) -> String {
    format!("{:?}", e)
}

pub fn put_events(evs: &[sink::Event]) -> Vec<J> {
    evs.iter()
        .filter(|e| e.op == "put")
        .map(|e| {
            let (kind, carrier) = it_kind(e.it);
            let v: i128 = e.value.parse().unwrap_or(0);
            json!({"ev": "Put", "kind": kind, "carrier": carrier, "w": e.len, "vbits": bits_of(v, carrier), "off": e.off, "ok": e.ok})
        })
        .collect()
}

/// one build_message call on `b`, fully recorded
pub fn record_build(b: &mut MessageBuilder, m: &Message, out: &mut Out, extra: J) -> Option<Vec<u8>> {
    let v = msg_to_v(m);
    let variant = v.variant_name().unwrap_or("?").to_string();
    sink::install();
    let res = guarded(|| b.build_message(m).map(|f| f.to_vec()));
    let evs = sink::take();
    // the same message on a fresh builder (no recording)
    let fresh = guarded(|| MessageBuilder::new().build_message(m).map(|f| f.to_vec()));
    let mut begin = json!({"ev": "BuildBegin", "variant": variant, "number": variant_number(&variant),
        "number_api": m.number().map(|n| n as i64).unwrap_or(-1)});
    if let J::Object(o) = extra {
        for (k, val) in o {
            begin[k] = val;
        }
    }
    out.emit(begin);
    for e in put_events(&evs) {
        out.emit(e);
    }
    let (o, frame) = match &res {
        Ok(Ok(f)) => ("ok".to_string(), f.clone()),
        Ok(Err(e)) => (format!("err:{}", err_name(e)), vec![]),
        Err(p) => (format!("panic:{}", p), vec![]),
    };
    let (fo, fframe) = match &fresh {
        Ok(Ok(f)) => ("ok".to_string(), f.clone()),
        Ok(Err(e)) => (format!("err:{}", err_name(e)), vec![]),
        Err(p) => (format!("panic:{}", p), vec![]),
    };
    out.emit(json!({"ev": "BuildEnd", "out": o, "frame": bytes_json(&frame), "fresh_out": fo, "fresh": bytes_json(&fframe)}));
    match res {
        Ok(Ok(f)) => Some(f),
        _ => None,
    }
}

/// systematic single-leaf extremes of a template
fn leaf_extremes(r: &mut StdRng, tmpl: &Message, max_leaves: usize) -> Vec<Message> {
    let base = msg_to_v(tmpl);
    let mut leaves: Vec<Vec<String>> = vec![];
    let mut p = vec![];
    base.walk(&mut p, &mut |path, v| match v {
        V::Int { .. } | V::F32(_) | V::F64(_) | V::None | V::Some(_) => leaves.push(path.to_vec()),
        _ => {}
    });
    let mut out = vec![];
    for _ in 0..max_leaves.min(leaves.len()) {
        let target = leaves[r.gen_range(0..leaves.len())].clone();
        let which = r.gen_range(0..8);
        let mut v = base.clone();
        let mut p = vec![];
        v.walk_mut(&mut p, &mut |path, node| {
            if path == target.as_slice() {
                match node {
                    V::Int { signed, bits, v } => {
                        let hi = if *signed { (1i128 << (*bits - 1)) - 1 } else { (1i128 << *bits) - 1 };
                        let lo = if *signed { -(1i128 << (*bits - 1)) } else { 0 };
                        *v = [0, 1, hi, hi - 1, lo, lo + 1, hi / 2 + 1, (hi / 2 + 1) | 1][which];
                        *v = (*v).clamp(lo, hi);
                    }
                    V::F32(f) => *f = [0.0, -0.0, 1e30, -1e30, f32::INFINITY, f32::NEG_INFINITY, f32::NAN, f32::MAX][which],
                    V::F64(f) => *f = [0.0, -0.0, 1e300, -1e300, f64::INFINITY, f64::NEG_INFINITY, f64::NAN, f64::MAX][which],
                    V::None => *node = V::Some(Box::new(V::Int { signed: true, bits: 8, v: [0, 1, -1, 127, -128, 2, 3, 100][which] })),
                    V::Some(inner) => {
                        if which < 2 {
                            *node = V::None
                        } else {
                            match inner.as_mut() {
                                V::F32(f) => *f = [0.0, 0.0, 1e30, -1e30, f32::INFINITY, f32::NEG_INFINITY, f32::NAN, f32::MAX][which],
                                V::F64(f) => *f = [0.0, 0.0, 1e300, -1e300, f64::INFINITY, f64::NEG_INFINITY, f64::NAN, f64::MAX][which],
                                V::Int { signed, bits, v } => {
                                    let hi = if *signed { (1i128 << (*bits - 1)) - 1 } else { (1i128 << *bits) - 1 };
                                    let lo = if *signed { -(1i128 << (*bits - 1)) } else { 0 };
                                    *v = [0, 0, hi, hi - 1, lo, lo + 1, 1, -1][which].clamp(lo, hi);
                                }
                                _ => {}
                            }
                        }
                    }
                    _ => {}
                }
            }
        });
        if let Ok(m) = v_to_msg(&v) {
            out.push(m);
        }
    }
    out
}

/// every numeric leaf at every one of 8 extreme values (small messages), a rotating subset of (leaf, extreme)
/// pairs for large ones: at most ~`work` leaf-visits worth of messages
fn leaf_extremes_systematic(tmpl: &Message, work: usize, round: usize) -> Vec<Message> {
    let base = msg_to_v(tmpl);
    let mut leaves: Vec<Vec<String>> = vec![];
    let mut p = vec![];
    base.walk(&mut p, &mut |path, v| match v {
        V::Int { .. } | V::F32(_) | V::F64(_) => leaves.push(path.to_vec()),
        _ => {}
    });
    let mut out = vec![];
    if leaves.is_empty() {
        return out;
    }
    let pairs = leaves.len() * 5;
    let budget = (work / leaves.len()).max(6).min(pairs);
    // `budget` (leaf, extreme) pairs spread evenly over all pairs; `round` shifts the selection
    for i in 0..budget {
        let k = (i * pairs / budget + round) % pairs;
        let target = leaves[k / 5].clone();
        let which = k % 5;
        let mut v = base.clone();
        let mut p = vec![];
        v.walk_mut(&mut p, &mut |path, node| {
            if path == target.as_slice() {
                match node {
                    V::Int { signed, bits, v } => {
                        let hi = if *signed { (1i128 << (*bits - 1)) - 1 } else { (1i128 << *bits) - 1 };
                        let lo = if *signed { -(1i128 << (*bits - 1)) } else { 0 };
                        *v = [hi, lo, 0, hi / 2 + 1, 1][which].clamp(lo, hi);
                    }
                    V::F32(f) => *f = [f32::NEG_INFINITY, f32::INFINITY, f32::NAN, f32::MIN, f32::MAX][which],
                    V::F64(f) => *f = [f64::NEG_INFINITY, f64::INFINITY, f64::NAN, f64::MIN, f64::MAX][which],
                    _ => {}
                }
            }
        });
        if let Ok(m) = v_to_msg(&v) {
            out.push(m);
        }
    }
    out
}

/// message stream for the build drivers: normal form, mutated, single-leaf extremes, specials, wire-less
pub fn message_stream(r: &mut StdRng, nums: &[u16], per_type: usize, nan_ok: bool) -> Vec<Message> {
    message_stream_w(r, nums, per_type, nan_ok, 10000)
}

pub fn message_stream_w(r: &mut StdRng, nums: &[u16], per_type: usize, nan_ok: bool, work: usize) -> Vec<Message> {
    let mut out = vec![];
    for &n in nums {
        let mut made = 0;
        // systematic part: each numeric leaf of one normal-form message at an extreme value
        for round in 0..(per_type / 8).max(1) {
            if let Some(t) = template(r, n) {
                for m in leaf_extremes_systematic(&t, work, round) {
                    out.push(m);
                }
            }
        }
        while made < per_type {
            let t = match template(r, n) {
                Some(t) => t,
                None => break,
            };
            out.push(t.clone());
            made += 1;
            for m in leaf_extremes(r, &t, 3) {
                out.push(m);
                made += 1;
            }
            for _ in 0..4 {
                out.push(mutated_message(r, &t, nan_ok));
                made += 1;
            }
        }
    }
    for m in crate::special::special_messages(r) {
        out.push(m);
    }
    for _ in 0..6 {
        out.push(wireless(r));
    }
    out
}

/// C09: every message on a fresh builder
pub fn rec_build(a: &Args, out: &mut Out) {
    let mut r = rng(a.seed(), 9);
    let nums = supported_numbers();
    let per_type = a.num("per_type", 12) as usize;
    let msgs = message_stream_w(&mut r, &nums, per_type, true, a.num("work", 10000) as usize);
    for m in msgs {
        out.emit(json!({"ev": "NewBuilder"}));
        let mut b = MessageBuilder::new();
        record_build(&mut b, &m, out, json!({}));
    }
    // messages obtained by decoding hostile CRC-valid frames are Message values too
    let hostile = a.num("hostile", 8) as usize;
    for &num in &nums {
        let mut frames = crate::drv_decode::hostile_frames(&mut r, num, hostile);
        frames.extend(crate::drv_decode::structured_hostile(&mut r, num).into_iter().take(hostile));
        for (f, _) in frames {
            if let Ok(Some(m)) = guarded(|| decode_frame(&f)) {
                if m.number().is_some() {
                    out.emit(json!({"ev": "NewBuilder"}));
                    let mut b = MessageBuilder::new();
                    record_build(&mut b, &m, out, json!({"source": "decoded-hostile"}));
                }
            }
        }
    }
}

/// one build_generated_message call (the library's test generator shares the builder's buffer and prologue),
/// recorded like a build_message session
pub fn record_generated_build(b: &mut MessageBuilder, num: u16, seed: u64, out: &mut Out) {
    use rtcm_rs::val_gen::ValGen;
    let mk = |s: u64| ValGen::new(crate::util::rng(s, 1), crate::util::rng(s, 2), crate::util::rng(s, 3));
    sink::install();
    let res = guarded(|| {
        let mut vg = mk(seed);
        b.build_generated_message(&mut vg, num).map(|f| f.to_vec())
    });
    let evs = sink::take();
    let fresh = guarded(|| {
        let mut vg = mk(seed);
        MessageBuilder::new().build_generated_message(&mut vg, num).map(|f| f.to_vec())
    });
    out.emit(json!({"ev": "BuildBegin", "variant": format!("Generated{}", num), "number": num, "number_api": num, "generated": true}));
    for e in put_events(&evs) {
        out.emit(e);
    }
    let render = |r: &Result<Result<Vec<u8>, RtcmError>, String>| match r {
        Ok(Ok(f)) => ("ok".to_string(), f.clone()),
        Ok(Err(e)) => (format!("err:{}", err_name(e)), vec![]),
        Err(p) => (format!("panic:{}", p), vec![]),
    };
    let (o, frame) = render(&res);
    let (fo, fframe) = render(&fresh);
    out.emit(json!({"ev": "BuildEnd", "out": o, "frame": bytes_json(&frame), "fresh_out": fo, "fresh": bytes_json(&fframe)}));
}

/// C12: long histories on a single builder
pub fn rec_history(a: &Args, out: &mut Out) {
    let mut r = rng(a.seed(), 12);
    let nums = supported_numbers();
    let histories = a.num("histories", 20) as usize;
    let calls = a.num("calls", 120) as usize;
    let pool = message_stream_w(&mut r, &nums, 6, true, 1500);
    // long and short, failing early and late: index a few classes for steering
    for _ in 0..histories {
        out.emit(json!({"ev": "NewBuilder"}));
        let mut b = MessageBuilder::new();
        for _ in 0..calls {
            if r.gen_range(0..5) == 0 {
                // the other entry point that uses the same buffer
                let num = *pick(&mut r, &nums);
                let seed: u64 = r.gen();
                record_generated_build(&mut b, num, seed, out);
            } else {
                let m = &pool[r.gen_range(0..pool.len())];
                record_build(&mut b, m, out, json!({}));
            }
        }
    }
    // the same message type twice in a row with different sizes (long, short, long): what a builder may skip "because the
    // layout is the same" is only safe for fixed-size types; all supported types, a few size pairs each
    for &num in &nums {
        let mut seen: Vec<(usize, Message)> = vec![];
        for _ in 0..10 {
            if let Some(t) = template(&mut r, num) {
                if let Some((bits, _)) = bit_length_of(&t) {
                    if !seen.iter().any(|s| s.0 == bits) {
                        seen.push((bits, t));
                    }
                }
            }
            if seen.len() >= 3 {
                break;
            }
        }
        if seen.len() >= 2 {
            seen.sort_by_key(|s| std::cmp::Reverse(s.0));
            out.emit(json!({"ev": "NewBuilder"}));
            let mut b = MessageBuilder::new();
            let (long, short) = (&seen[0].1, &seen[seen.len() - 1].1);
            record_build(&mut b, long, out, json!({"same_type": num}));
            record_build(&mut b, short, out, json!({"same_type": num}));
            record_build(&mut b, long, out, json!({"same_type": num}));
            if seen.len() >= 3 {
                record_build(&mut b, &seen[1].1, out, json!({"same_type": num}));
                record_build(&mut b, short, out, json!({"same_type": num}));
            }
        }
    }
    // every ordered pair of frames at / next to the maximum length on one builder (what the last buffer bytes keep from the
    // previous build: its checksum, its last body bytes), and each of them after a short frame
    let nm = near_max_messages(&mut r);
    let short = pool.iter().find(|m| bit_length_of(m).map(|(_, f)| f < 40).unwrap_or(false)).cloned();
    for (i, x) in nm.iter().enumerate() {
        for (j, y) in nm.iter().enumerate() {
            out.emit(json!({"ev": "NewBuilder"}));
            let mut b = MessageBuilder::new();
            record_build(&mut b, &x.2, out, json!({"nearmax": [x.0, x.1]}));
            record_build(&mut b, &y.2, out, json!({"nearmax": [y.0, y.1]}));
            if i == j {
                if let Some(s) = &short {
                    record_build(&mut b, s, out, json!({}));
                    record_build(&mut b, &y.2, out, json!({"nearmax": [y.0, y.1]}));
                }
            }
        }
    }
}

/// messages whose frames are at / next to the maximum length (body 1017..=1023 bytes), one per distinct (body bytes, padding bits):
/// 1059 lists filled to the container capacity over 50..=63 satellites, and list messages at capacity
pub fn near_max_messages(r: &mut StdRng) -> Vec<(usize, usize, Message)> {
    use crate::special_msm::{bias_message, SSR_GPS};
    let mut found: Vec<(usize, usize, Message)> = vec![];
    let mut consider = |m: Message, found: &mut Vec<(usize, usize, Message)>| {
        if let Some((bits, flen)) = bit_length_of(&m) {
            let body = flen - 6;
            if body >= 1017 && !found.iter().any(|f| f.0 == body && f.1 == bits % 8) {
                found.push((body, bits % 8, m));
            }
        }
    };
    for nsat in (50usize..=63).rev() {
        for total in (376usize..=390).rev() {
            if found.len() >= 6 {
                break;
            }
            let mut es: Vec<(u8, u8, char, f32)> = vec![];
            'fill: for round in 0..SSR_GPS.len() {
                for s in 0..nsat {
                    if es.len() >= total {
                        break 'fill;
                    }
                    let g = SSR_GPS[round];
                    es.push((s as u8, g.0, g.1, ((es.len() as i32 % 16000) - 8000) as f32 * 0.01));
                }
            }
            if es.len() == total {
                if let Ok(m) = bias_message(r, 1059, &es) {
                    consider(m, &mut found);
                }
            }
        }
    }
    for (num, cap) in [(1057u16, 60usize), (1063, 60), (1058, 63), (1064, 63)] {
        for _ in 0..4 {
            if let Some(t) = template(r, num) {
                let mut v = msg_to_v(&t);
                if let Some(xs) = v.field_mut("satellites").and_then(|s| s.as_seq_mut()) {
                    if xs.is_empty() {
                        continue;
                    }
                    let proto = xs.clone();
                    *xs = (0..cap).map(|i| proto[i % proto.len()].clone()).collect();
                }
                if let Ok(m) = v_to_msg(&v) {
                    consider(m, &mut found);
                    break;
                }
            }
        }
    }
    found
}

// ---------------------------------------------------------------- C12: spec-generated histories

fn bit_length_of(m: &Message) -> Option<(usize, usize)> {
    // (payload bits written, frame length) when the build succeeds
    sink::install();
    let res = guarded(|| MessageBuilder::new().build_message(m).map(|f| f.len()));
    let evs = sink::take();
    match res {
        Ok(Ok(flen)) => evs.iter().filter(|e| e.op == "put" && e.ok).last().map(|e| (e.off + e.len, flen)),
        _ => None,
    }
}
fn puts_before_failure(m: &Message) -> Option<usize> {
    sink::install();
    let res = guarded(|| MessageBuilder::new().build_message(m).map(|f| f.len()));
    let evs = sink::take();
    match res {
        Ok(Err(_)) => Some(evs.iter().filter(|e| e.op == "put" && e.ok).count()),
        _ => None,
    }
}

/// concrete messages for the abstract classes of Gen_Builder (each verified by observation)
fn class_pool(r: &mut StdRng) -> std::collections::HashMap<&'static str, Vec<Message>> {
    let mut pool: std::collections::HashMap<&'static str, Vec<Message>> = std::collections::HashMap::new();
    let mut add = |k: &'static str, m: Message, pool: &mut std::collections::HashMap<&'static str, Vec<Message>>| {
        let v = pool.entry(k).or_default();
        if v.len() < 6 {
            v.push(m);
        }
    };
    // successes, classified by alignment and size
    for num in [1001u16, 1002, 1003, 1005, 1006, 1013, 1019, 1020, 1029, 1033, 1230, 1071, 1074, 1004, 1012, 1057, 1060, 1077, 1097, 1127] {
        for _ in 0..6 {
            if let Some(t) = template(r, num) {
                if let Some((bits, flen)) = bit_length_of(&t) {
                    if bits % 8 != 0 && flen < 60 {
                        add("A", t, &mut pool);
                    } else if bits % 8 == 0 {
                        add("B", t, &mut pool);
                    } else if flen > 300 {
                        add("C", t, &mut pool);
                    }
                }
            }
        }
    }
    add("D", Message::Empty, &mut pool);
    add("D", Message::Corrupt, &mut pool);
    add("D", wireless(r), &mut pool);
    // failures right after the header / late
    for m in crate::special::special_messages(r) {
        if let Some(k) = puts_before_failure(&m) {
            if (1..=16).contains(&k) {
                add("E", m, &mut pool);
            } else if k > 60 {
                add("F", m, &mut pool);
            }
        }
    }
    for num in [1009u16, 1010, 1011, 1012] {
        for _ in 0..8 {
            if let Some(t) = template(r, num) {
                let mut v = msg_to_v(&t);
                // the last satellite gets an unrepresentable frequency channel number: OutOfRange after most of the body
                if let Some(s) = v.field_mut("satellites").and_then(|s| s.as_seq_mut()) {
                    if s.len() >= 6 {
                        let n = s.len();
                        if let Some(V::Int { v, .. }) = s[n - 1].field_mut("glo_satellite_freq_chan_number") {
                            *v = -8;
                        }
                    } else {
                        continue;
                    }
                }
                if let Ok(m) = v_to_msg(&v) {
                    if puts_before_failure(&m).map(|k| k > 40).unwrap_or(false) {
                        add("F", m, &mut pool);
                    }
                }
            }
        }
    }
    pool
}

/// replay of TLC-generated histories (Gen_Builder) on real builders, recorded for trace validation
pub fn replay_histories(a: &Args, out: &mut Out) {
    let mut r = rng(a.seed(), 120);
    let pool = class_pool(&mut r);
    let input = std::fs::read_to_string(a.str("in", "")).expect("vectors");
    let mut k = 0usize;
    for line in input.lines() {
        let v: J = match serde_json::from_str(line) {
            Ok(v) => v,
            Err(_) => continue,
        };
        let hist: Vec<String> = v["history"].as_array().unwrap().iter().map(|x| x.as_str().unwrap().to_string()).collect();
        let expect: Vec<String> = v["expect"].as_array().unwrap().iter().map(|x| x.as_str().unwrap().to_string()).collect();
        out.emit(json!({"ev": "NewBuilder", "history": hist}));
        let mut b = MessageBuilder::new();
        for (i, c) in hist.iter().enumerate() {
            let cands = match pool.get(c.as_str()) {
                Some(c) if !c.is_empty() => c,
                _ => {
                    eprintln!("no concrete message for class {}", c);
                    std::process::exit(3);
                }
            };
            k += 1;
            let m = &cands[(k + i * 7) % cands.len()];
            let res = record_build(&mut b, m, out, json!({"class": c, "expect": expect[i]}));
            let got = if res.is_some() { "ok" } else { "err" };
            if got != expect[i] {
                // the binding of classes to concrete messages is wrong: a tool error, not a verdict
                out.emit(json!({"ev": "ClassMismatch", "class": c, "expect": expect[i], "got": got}));
            }
        }
    }
}

pub fn debug_extremes(a: &Args) {
    let mut r = rng(a.seed(), 9);
    let num = a.num("num", 1020) as u16;
    let t = template(&mut r, num).unwrap();
    let ms = leaf_extremes_systematic(&t, 16000, 0);
    eprintln!("{} messages", ms.len());
    let base = msg_to_v(&t);
    let mut n = 0;
    base.walk(&mut vec![], &mut |p, v| { if matches!(v, V::Int{..}|V::F32(_)|V::F64(_)) { n += 1; if n < 5 { eprintln!("{:?} {:?}", p, v); } } });
    eprintln!("{} leaves", n);
    for m in ms.iter().take(3) { eprintln!("{:?}", msg_to_v(m).field("tau_c_s")); }
}
