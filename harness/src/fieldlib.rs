//! Generic field-level probes used by the generated table (generated.rs): decode -> encode
//! round trips on raw bit patterns (C08) and grid-coordinate probes of the quantiser (C11).

use crate::drv_bits::Car;
use rtcm_rs::prelude::RtcmError;
use rtcm_rs::verif::bit_value::*;
use rtcm_rs::verif::{Assembler, Parser};

/// what can be observed of a decoded field value
pub trait Obs {
    fn absent(&self) -> bool;
    fn finite(&self) -> bool;
    fn real(&self) -> Option<f64>;
}
macro_rules! obs_int {
    ($($t:ty),*) => {$(impl Obs for $t {
        fn absent(&self) -> bool { false }
        fn finite(&self) -> bool { true }
        fn real(&self) -> Option<f64> { Some(*self as f64) }
    })*};
}
obs_int!(u8, u16, u32, u64, i8, i16, i32, i64, usize);
impl Obs for f32 {
    fn absent(&self) -> bool { false }
    fn finite(&self) -> bool { self.is_finite() }
    fn real(&self) -> Option<f64> { Some(*self as f64) }
}
impl Obs for f64 {
    fn absent(&self) -> bool { false }
    fn finite(&self) -> bool { self.is_finite() }
    fn real(&self) -> Option<f64> { Some(*self) }
}
impl<T: Obs> Obs for Option<T> {
    fn absent(&self) -> bool { self.is_none() }
    fn finite(&self) -> bool { self.as_ref().map(|x| x.finite()).unwrap_or(true) }
    fn real(&self) -> Option<f64> { self.as_ref().and_then(|x| x.real()) }
}

/// construct a field's DataType from a real number
pub trait FromReal {
    fn from_real(x: f64) -> Self;
}
impl FromReal for f32 {
    fn from_real(x: f64) -> Self { x as f32 }
}
impl FromReal for f64 {
    fn from_real(x: f64) -> Self { x }
}
impl<T: FromReal> FromReal for Option<T> {
    fn from_real(x: f64) -> Self { Some(T::from_real(x)) }
}

#[derive(Clone, Copy, Debug)]
pub struct Rt {
    pub dec_err: bool,
    pub enc_err: bool,
    pub absent: bool,
    pub finite: bool,
    /// bits written by the re-encoding and their value (MSB first)
    pub n: usize,
    pub q: u64,
}

/// decode the w-bit pattern p, encode the result, read back what was written
#[inline]
pub fn rt_generic<T: Obs>(
    p: u64,
    w: usize,
    dec: impl Fn(&mut Parser) -> Result<T, RtcmError>,
    enc: impl Fn(&mut Assembler, &T) -> Result<(), RtcmError>,
) -> Rt {
    let mut b1 = [0u8; 16];
    {
        let mut a = Assembler::new(&mut b1, 0);
        let _ = a.put::<U64>(p, w);
    }
    let mut par = Parser::new(&b1, 0);
    let v = match dec(&mut par) {
        Ok(v) => v,
        Err(_) => return Rt { dec_err: true, enc_err: false, absent: false, finite: true, n: 0, q: 0 },
    };
    let mut b2 = [0u8; 16];
    let n;
    {
        let mut a = Assembler::new(&mut b2, 0);
        if enc(&mut a, &v).is_err() {
            return Rt { dec_err: false, enc_err: true, absent: v.absent(), finite: v.finite(), n: 0, q: 0 };
        }
        n = a.offset();
    }
    let q = if n <= 64 { Parser::new(&b2, 0).parse::<U64>(n).unwrap_or(u64::MAX) } else { u64::MAX };
    Rt { dec_err: false, enc_err: false, absent: v.absent(), finite: v.finite(), n, q }
}

#[derive(Clone, Copy, Debug)]
pub struct Probe {
    pub enc_err: bool,
    /// integer value of the written pattern under the field's kind
    pub kout: i128,
    /// |decode(encode(x)) - x| / res  (f64 measurement)
    pub err_units: f64,
    pub dec_absent: bool,
    pub x: f64,
    /// the written pattern, bit for bit
    pub raw: u64,
}

/// encode the real x, read the written pattern as an integer, decode it again
pub fn probe_generic<IT: Car, T: Obs, F>(
    x: f64,
    res: f64,
    value: T,
    w: usize,
    dec: impl Fn(&mut Parser) -> Result<T, RtcmError>,
    enc: impl Fn(&mut Assembler, &T) -> Result<(), RtcmError>,
) -> Probe {
    let mut b = [0u8; 16];
    {
        let mut a = Assembler::new(&mut b, 0);
        if enc(&mut a, &value).is_err() {
            return Probe { enc_err: true, kout: 0, err_units: 0.0, dec_absent: false, x, raw: 0 };
        }
    }
    let kout = Parser::new(&b, 0).parse::<IT>(w).map(IT::to_i128).unwrap_or(i128::MAX);
    let raw = Parser::new(&b, 0).parse::<U64>(w).unwrap_or(u64::MAX);
    let back = dec(&mut Parser::new(&b, 0));
    let (err_units, dec_absent) = match back {
        Ok(v) => match v.real() {
            Some(y) => (((y - x) / res).abs(), false),
            None => (0.0, true),
        },
        Err(_) => (f64::INFINITY, false),
    };
    Probe { enc_err: false, kout, err_units, dec_absent, x, raw }
}

pub struct FieldFns {
    pub id: &'static str,
    pub w: usize,
    pub kind: &'static str,
    pub carrier: u32,
    pub ftype: &'static str,
    pub has_inv: bool,
    pub inv: i64,
    pub round: bool,
    pub rt: fn(u64) -> Rt,
    pub probe: Option<fn(i64, f64) -> Probe>,
}
