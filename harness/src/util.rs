//! small shared helpers: argument parsing, NDJSON output, panic capture

use rand::rngs::StdRng;
use rand::{Rng, SeedableRng};
use serde_json::Value as J;
use std::cell::RefCell;
use std::collections::HashMap;
use std::io::{BufWriter, Write};
use std::panic::{catch_unwind, AssertUnwindSafe};

pub struct Args(pub HashMap<String, String>);
impl Args {
    pub fn parse(it: impl Iterator<Item = String>) -> Args {
        let mut m = HashMap::new();
        for a in it {
            if let Some((k, v)) = a.split_once('=') {
                m.insert(k.to_string(), v.to_string());
            } else {
                m.insert(a, "1".to_string());
            }
        }
        Args(m)
    }
    pub fn str(&self, k: &str, d: &str) -> String {
        self.0.get(k).cloned().unwrap_or_else(|| d.to_string())
    }
    pub fn num(&self, k: &str, d: u64) -> u64 {
        self.0.get(k).map(|s| s.parse().expect("numeric argument")).unwrap_or(d)
    }
    pub fn seed(&self) -> u64 {
        self.num("seed", 1)
    }
}

pub fn rng(seed: u64, stream: u64) -> StdRng {
    StdRng::seed_from_u64(seed.wrapping_mul(0x9E37_79B9_7F4A_7C15).wrapping_add(stream))
}

pub struct Out {
    w: BufWriter<Box<dyn Write>>,
    pub lines: u64,
}
impl Out {
    pub fn open(path: &str) -> Out {
        let w: Box<dyn Write> = if path == "-" {
            Box::new(std::io::stdout())
        } else {
            Box::new(std::fs::File::create(path).expect("create output"))
        };
        Out { w: BufWriter::new(w), lines: 0 }
    }
    pub fn emit(&mut self, v: J) {
        serde_json::to_writer(&mut self.w, &v).unwrap();
        self.w.write_all(b"\n").unwrap();
        self.lines += 1;
        if self.lines % 64 == 0 {
            let _ = self.w.flush();
        }
    }
    pub fn finish(mut self) {
        self.w.flush().unwrap();
    }
}

thread_local! {
    static LAST_PANIC: RefCell<Option<String>> = RefCell::new(None);
}

pub fn install_panic_hook() {
    std::panic::set_hook(Box::new(|info| {
        let loc = info
            .location()
            .map(|l| format!("{}:{}", l.file(), l.line()))
            .unwrap_or_default();
        let msg = if let Some(s) = info.payload().downcast_ref::<&str>() {
            s.to_string()
        } else if let Some(s) = info.payload().downcast_ref::<String>() {
            s.clone()
        } else {
            "panic".to_string()
        };
        LAST_PANIC.with(|p| *p.borrow_mut() = Some(format!("{} @ {}", msg, loc)));
    }));
}

pub fn take_last_panic() -> Option<String> {
    LAST_PANIC.with(|p| p.borrow_mut().take())
}

/// Run code under test; a panic is data, not a crash.
pub fn guarded<T>(f: impl FnOnce() -> T) -> Result<T, String> {
    match catch_unwind(AssertUnwindSafe(f)) {
        Ok(v) => Ok(v),
        Err(_) => Err(LAST_PANIC.with(|p| p.borrow_mut().take()).unwrap_or_else(|| "panic".into())),
    }
}

pub fn bytes_json(b: &[u8]) -> J {
    J::Array(b.iter().map(|x| J::from(*x)).collect())
}

pub fn pick<'a, T>(r: &mut StdRng, xs: &'a [T]) -> &'a T {
    &xs[r.gen_range(0..xs.len())]
}
