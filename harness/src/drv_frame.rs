//! Recorders for the frame / scanner / stream level (C03, C04, C05, C06, C13).
//! They only record what the library did; every verdict is TLC's.

use crate::frames::*;
use crate::util::*;
use crate::value::to_v;
use rand::rngs::StdRng;
use rand::Rng;
use rtcm_rs::prelude::*;
use serde_json::{json, Value as J};

fn sub_off(outer: &[u8], inner: &[u8]) -> J {
    let o = outer.as_ptr() as usize;
    let i = inner.as_ptr() as usize;
    if i >= o && i + inner.len() <= o + outer.len() {
        json!([i - o, inner.len()])
    } else {
        json!(["foreign", bytes_json(inner)])
    }
}

pub fn digest(s: &str) -> String {
    // two independent 64-bit FNV-style hashes -> 128-bit digest of a canonical rendering
    let mut a: u64 = 0xcbf29ce484222325;
    let mut b: u64 = 0x84222325cbf29ce4;
    for c in s.bytes() {
        a = (a ^ c as u64).wrapping_mul(0x100000001b3);
        b = (b.rotate_left(5) ^ c as u64).wrapping_mul(0x9E3779B97F4A7C15);
    }
    format!("{:016x}{:016x}", a, b)
}

/// what MessageFrame::new answers for `bytes`, as a JSON object
pub fn observe_new(bytes: &[u8], with_msg: bool) -> J {
    crate::drv_decode::enter(bytes);
    let o = observe_new_inner(bytes, with_msg);
    crate::drv_decode::leave();
    o
}

fn observe_new_inner(bytes: &[u8], with_msg: bool) -> J {
    let r = guarded(|| match MessageFrame::new(bytes) {
        Ok(m) => {
            let mut o = json!({
                "out": "ok",
                "flen": m.frame_len(),
                "dlen": m.data_len(),
                "data": sub_off(bytes, m.data()),
                "frame": sub_off(bytes, m.frame_data()),
                "crc": m.crc(),
                "num": m.message_number().map(|n| n as i64).unwrap_or(-1),
            });
            if with_msg {
                let msg = m.get_message();
                let v = to_v(&msg).unwrap();
                o["msg_variant"] = json!(v.variant_name().unwrap_or("?"));
                o["msg_digest"] = json!(digest(&v.canon().to_string()));
                if let Message::MsgNotSupported(t) = &msg {
                    o["msg_carried"] = json!(t.message_number);
                }
            }
            o
        }
        Err(RtcmError::Incomplete) => json!({"out": "incomplete"}),
        Err(RtcmError::NotValid) => json!({"out": "notvalid"}),
        Err(e) => json!({"out": format!("other:{:?}", e)}),
    });
    match r {
        Ok(o) => o,
        Err(p) => json!({"out": "panic", "panic": p}),
    }
}

pub fn scan_obs_pub(buf: &[u8]) -> J {
    scan_obs(buf)
}

fn scan_obs(buf: &[u8]) -> J {
    crate::drv_decode::enter(buf);
    let o = scan_obs_inner(buf);
    crate::drv_decode::leave();
    o
}

fn scan_obs_inner(buf: &[u8]) -> J {
    match guarded(|| {
        let (consumed, mf) = next_msg_frame(buf);
        match mf {
            Some(m) => {
                let fd = m.frame_data();
                let o = buf.as_ptr() as usize;
                let i = fd.as_ptr() as usize;
                let at: i64 = if i >= o && i + fd.len() <= o + buf.len() { (i - o) as i64 } else { -2 };
                (consumed, at, fd.len())
            }
            None => (consumed, -1, 0),
        }
    }) {
        Ok((c, at, len)) => json!({"consumed": c, "at": at, "len": len}),
        Err(p) => json!({"consumed": -1, "at": -3, "len": 0, "panic": p}),
    }
}

fn near_misses(r: &mut StdRng, f: &[u8], out: &mut Vec<Vec<u8>>) {
    let n = f.len();
    // wrong preamble: single-bit neighbours of 0xD3 and random bytes
    for b in 0..8 {
        let mut g = f.to_vec();
        g[0] ^= 1 << b;
        out.push(g);
    }
    // truncations: boundaries + sampled
    for cut in [0usize, 1, 2, 3, 4, 5, 6, 7, n.saturating_sub(2), n - 1] {
        if cut < n {
            out.push(f[..cut].to_vec());
        }
    }
    for _ in 0..4 {
        out.push(f[..r.gen_range(0..n)].to_vec());
    }
    // checksum off by one bit / one byte
    for _ in 0..6 {
        let mut g = f.to_vec();
        g[n - 1 - r.gen_range(0..3)] ^= 1 << r.gen_range(0..8);
        out.push(g);
    }
    let mut g = f.to_vec();
    g[n - 2] = g[n - 2].wrapping_add(1);
    out.push(g);
    // length field perturbed (+-1, +-256), with trailing bytes so the extent is there
    for d in [1i32, -1, 256, -256] {
        let l = (((f[1] & 3) as i32) << 8 | f[2] as i32) + d;
        if (0..1024).contains(&l) {
            let mut g = f.to_vec();
            g[1] = (g[1] & 0xFC) | ((l >> 8) as u8);
            g[2] = l as u8;
            g.extend(random_payload(r, 300));
            out.push(g);
        }
    }
    // reserved bits set without / with checksum recomputation
    let mut g = f.to_vec();
    g[1] |= (r.gen_range(1..64u8)) << 2;
    out.push(g.clone());
    refresh_crc(&mut g);
    out.push(g);
    // trailing bytes
    let mut g = f.to_vec();
    g.push(r.gen());
    out.push(g);
    let mut g = f.to_vec();
    let extra = r.gen_range(2..400);
    g.extend(random_payload(r, extra));
    out.push(g);
    // payload bit flip
    if n > 6 {
        let mut g = f.to_vec();
        g[r.gen_range(3..n - 3)] ^= 1 << r.gen_range(0..8);
        out.push(g);
    }
}

/// C03: FrameNew events over random slices, valid frames of every kind, near-misses
pub fn rec_frame_new(a: &Args, out: &mut Out) {
    let n = a.num("n", 4000);
    let mut r = rng(a.seed(), 3);
    let nums = supported_numbers();
    let mut queue: Vec<Vec<u8>> = vec![];
    // every payload length when asked for, else the boundary set
    if a.num("all_lengths", 0) == 1 {
        for l in 0..1024usize {
            let p = random_payload(&mut r, l);
            queue.push(mk_frame(&p, 0));
        }
    }
    for total in [65535usize, 65536, 65537, 65541, 131072, 131075] {
        let f = random_frame(&mut r, &nums);
        let mut b = f.clone();
        if total > b.len() {
            b.resize(total, 0x11);
        }
        queue.push(b);
    }
    let mut emitted = 0;
    while emitted < n {
        if queue.is_empty() {
            match r.gen_range(0..10) {
                0 => {
                    let len = r.gen_range(0..40);
                    queue.push((0..len).map(|_| r.gen()).collect());
                }
                1 => {
                    let len = r.gen_range(0..40);
                    let mut v: Vec<u8> = (0..len).map(|_| r.gen()).collect();
                    if !v.is_empty() {
                        v[0] = 0xD3;
                    }
                    if v.len() > 1 && r.gen() {
                        v[1] &= 3;
                    }
                    queue.push(v);
                }
                2 => {
                    let (b, _) = grammar_buffer(&mut r, &nums, 3, 3000);
                    queue.push(b);
                }
                _ => {
                    let f = random_frame(&mut r, &nums);
                    queue.push(f.clone());
                    near_misses(&mut r, &f, &mut queue);
                }
            }
        }
        let b = queue.pop().unwrap();
        let mut o = observe_new(&b, false);
        o["ev"] = json!("FrameNew");
        o["bytes"] = bytes_json(&b);
        out.emit(o);
        emitted += 1;
    }
}

/// C13: the same frame with and without a suffix
pub fn rec_sfx(a: &Args, out: &mut Out) {
    let n = a.num("n", 3000);
    let mut r = rng(a.seed(), 13);
    let nums = supported_numbers();
    for k in 0..n {
        let f = match k % 8 {
            0 => mk_frame(&[], if r.gen() { 0 } else { r.gen_range(0..64) }),
            1 => mk_frame(&[r.gen()], 0),
            2 => mk_frame(&[r.gen(), r.gen()], 0),
            3 => {
                // two-byte payload naming a supported number
                let num = *pick(&mut r, &nums);
                mk_frame(&[(num >> 4) as u8, ((num & 0xF) << 4) as u8], 0)
            }
            _ => random_frame(&mut r, &nums),
        };
        let sfx: Vec<u8> = match if k % 40 == 39 { 99 } else { r.gen_range(0..7) } {
            99 => {
                // total buffer length around a multiple of 65536 (length arithmetic must not be done in 16 bits)
                let base = 65536usize * (1 + (k as usize / 40) % 2);
                let total = base + *pick(&mut r, &[0usize, 1, 5, f.len() - 1, f.len(), 3]);
                let fill = *pick(&mut r, &[0u8, 0x55, 0xFF]);
                vec![fill; total.saturating_sub(f.len())]
            }
            0 => vec![],
            1 => vec![*pick(&mut r, &[0x00u8, 0xD3, 0xFF])],
            2 => (0..2).map(|_| r.gen()).collect(),
            3 => (0..64).map(|_| r.gen()).collect(),
            4 => random_frame(&mut r, &nums),
            5 => {
                let g = random_frame(&mut r, &nums);
                let cut = r.gen_range(1..g.len());
                g[..cut].to_vec()
            }
            _ => {
                // a suffix that looks like a message number: 0x47E.. = 1150 and friends
                vec![r.gen(), r.gen(), r.gen(), r.gen()]
            }
        };
        let mut whole = f.clone();
        whole.extend(&sfx);
        let plain = observe_new(&f, true);
        let with = observe_new(&whole, true);
        out.emit(json!({"ev": "Sfx", "frame": bytes_json(&f), "sfx": bytes_json(&sfx), "plain": plain, "with": with}));
    }
}

/// C05: one event per next_msg_frame call on a buffer, and iterator runs
pub fn rec_scan(a: &Args, out: &mut Out) {
    let n = a.num("n", 1500);
    let max_len = a.num("max_len", 4000) as usize;
    let mut r = rng(a.seed(), 5);
    let nums = supported_numbers();
    for k in 0..n {
        let (buf, tags) = if k % 97 == 96 {
            let total = 65536usize * (1 + (k as usize / 97) % 2) + *pick(&mut r, &[0usize, 2, 5, 9]);
            let mut b: Vec<u8> = vec![];
            if r.gen() {
                b.extend(vec![0x22u8; r.gen_range(0..4)]);
            }
            b.extend(random_frame(&mut r, &nums));
            if total > b.len() {
                b.resize(total, 0x33);
            }
            (b, vec!["large"])
        } else if k == 48 || k == 145 {
            // tens of thousands of complete-but-invalid candidates back to back, then a real frame: the scanner has to
            // reject every one of them (and may not need stack or time that grows with their number, see scan_obs_small_stack)
            let pat: &[u8] = if k == 48 { &[0xD3, 0x00, 0x00] } else { &[0xD3, 0x00, 0x01, 0x55] };
            let mut b: Vec<u8> = vec![];
            for _ in 0..40_000 {
                b.extend_from_slice(pat);
            }
            b.extend(random_frame(&mut r, &nums));
            (b, vec!["dense"])
        } else if k % 6 == 5 {
            let len = r.gen_range(0..600);
            ((0..len).map(|_| if r.gen_range(0..8) == 0 { 0xD3 } else { r.gen() }).collect(), vec!["random"])
        } else {
            grammar_buffer(&mut r, &nums, 6, max_len)
        };
        // repeated scanner calls on the unconsumed rest (what a caller does)
        let mut base = 0usize;
        let mut calls = 0;
        loop {
            let rest = &buf[base..];
            let mut o = if tags.contains(&"dense") { scan_obs_small_stack(rest) } else { scan_obs(rest) };
            let consumed = o["consumed"].as_i64().unwrap_or(-1);
            let got = o["at"].as_i64().unwrap_or(-1) >= 0;
            o["ev"] = json!("Scan");
            o["buf"] = bytes_json(rest);
            if calls == 0 {
                o["tags"] = json!(tags);
            }
            out.emit(o);
            calls += 1;
            if consumed <= 0 || consumed as usize > rest.len() || (!got) || calls > 50 {
                break;
            }
            base += consumed as usize;
            if base >= buf.len() {
                break;
            }
        }
        // the iterator on the whole buffer
        out.emit(iter_obs(&buf));
    }
}

/// scan_obs on a thread with a 1 MiB stack (half of Rust's default for spawned threads): scanning is iterative, its stack
/// need does not depend on the input; a scanner that recurses per rejected candidate dies here (process abort = crash event)
pub fn scan_obs_small_stack(buf: &[u8]) -> J {
    let data = buf.to_vec();
    std::thread::Builder::new()
        .stack_size(1 << 20)
        .spawn(move || scan_obs(&data))
        .expect("spawn")
        .join()
        .unwrap_or_else(|_| json!({"consumed": -1, "at": -1, "panic": "scanner thread panicked"}))
}

/// one MsgFrameIter run on `buf` (+ three extra next() calls), as an Iter event
pub fn iter_obs(buf: &[u8]) -> J {
    crate::drv_decode::enter(buf);
    let o = iter_obs_inner(buf);
    crate::drv_decode::leave();
    o
}

fn iter_obs_inner(buf: &[u8]) -> J {
    let it = guarded(|| {
        let mut it = MsgFrameIter::new(buf);
        let mut frames = vec![];
        let o = buf.as_ptr() as usize;
        let mut steps = 0;
        for m in &mut it {
            let fd = m.frame_data();
            frames.push(json!([(fd.as_ptr() as usize).wrapping_sub(o), fd.len()]));
            steps += 1;
            if steps > buf.len() + 2 {
                break;
            }
        }
        let consumed = it.consumed();
        let mut after = vec![];
        for _ in 0..3 {
            let nx = (&mut it).next();
            after.push(json!([nx.is_some() as u8, it.consumed()]));
        }
        (frames, consumed, after, steps)
    });
    match it {
        Ok((frames, consumed, after, steps)) => json!({"ev": "Iter", "buf": bytes_json(buf), "frames": frames,
            "consumed": consumed, "after": after, "runaway": (steps > buf.len() + 2) as u8}),
        Err(p) => json!({"ev": "Iter", "buf": bytes_json(buf), "frames": [], "consumed": -1, "after": [], "runaway": 0, "panic": p}),
    }
}

/// C06: streaming sessions -- the caller protocol of the property around next_msg_frame
pub fn rec_stream(a: &Args, out: &mut Out) {
    let n = a.num("n", 200);
    let max_len = a.num("max_len", 6000) as usize;
    let mut r = rng(a.seed(), 6);
    let nums = supported_numbers();
    for k in 0..n {
        let (mut stream, _) = grammar_buffer(&mut r, &nums, 8, max_len);
        let style = k % 4;
        if k % 8 == 0 {
            // make sure frames at the maximum length are cut at every position (style 0 feeds single bytes)
            let l = 1019 + (k as usize / 8) % 5;
            let p = random_payload(&mut r, l);
            stream.extend(mk_frame(&p, if k % 16 == 0 { 0 } else { 5 }));
            stream.extend(random_frame(&mut r, &nums));
        }
        out.emit(json!({"ev": "StreamInit", "stream": bytes_json(&stream), "style": style}));
        let mut pending: Vec<u8> = vec![];
        let mut fed = 0usize;
        let mut base = 0usize;
        let mut delivered: Vec<J> = vec![];
        let mut guard = 0;
        while fed < stream.len() {
            let left = stream.len() - fed;
            let nfeed = match style {
                0 => 1,
                1 => *pick(&mut r, &[1usize, 2, 3, 5, 6, 7]),
                2 => r.gen_range(1..=left.min(1500)),
                _ => *pick(&mut r, &[1usize, 2, 3, 5, 6, 7, 64, 1029, 1030, 1035]),
            }
            .min(left);
            pending.extend(&stream[fed..fed + nfeed]);
            fed += nfeed;
            out.emit(json!({"ev": "Feed", "n": nfeed}));
            // the caller scans until no more progress (sometimes lazily: skips scanning this round)
            if style == 3 && r.gen_range(0..4) == 0 && fed < stream.len() {
                continue;
            }
            loop {
                let o = scan_obs(&pending);
                let consumed = o["consumed"].as_i64().unwrap_or(-1);
                let at = o["at"].as_i64().unwrap_or(-1);
                let len = o["len"].as_i64().unwrap_or(0);
                let mut e = o.clone();
                e["ev"] = json!("Scan");
                out.emit(e);
                guard += 1;
                if consumed < 0 || consumed as usize > pending.len() || guard > 200000 {
                    break;
                }
                if at >= 0 {
                    delivered.push(json!([base as i64 + at, len]));
                }
                pending.drain(..consumed as usize);
                base += consumed as usize;
                if consumed == 0 && at < 0 {
                    break;
                }
            }
        }
        out.emit(json!({"ev": "End", "delivered": delivered, "base": base}));
    }
}

fn allowed_bits(flen: usize) -> Vec<usize> {
    // reserved header bits, payload and checksum: never the preamble or the 10 length bits
    let mut v: Vec<usize> = (8..14).collect();
    v.extend(24..flen * 8);
    v
}
fn flip(f: &mut [u8], bit: usize) {
    f[bit / 8] ^= 0x80 >> (bit % 8);
}
thread_local! {
    /// per-thread working buffers: the valid frame alone, and the valid frame followed by a second copy of itself
    static WORK: std::cell::RefCell<(Vec<u8>, Vec<u8>)> = std::cell::RefCell::new((vec![], vec![]));
}

/// one corruption of `orig` (a valid frame): is the damaged frame accepted by MessageFrame::new / delivered by the scanner?
/// The damage is applied IN PLACE to a buffer in which the intact frame has just been accepted (a receive buffer that is
/// reused: whatever the library remembers between calls must not let the damaged bytes through), and once more to a copy
/// of the frame that FOLLOWS the intact frame in one buffer walked by MsgFrameIter (only the first may be delivered).
fn try_corrupt(orig: &[u8], bits: &[usize]) -> (bool, bool) {
    WORK.with(|w| {
        let mut w = w.borrow_mut();
        let (g, gg) = &mut *w;
        if g.as_slice() != orig {
            g.clear();
            g.extend_from_slice(orig);
            gg.clear();
            gg.extend_from_slice(orig);
            gg.extend_from_slice(orig);
        }
        // the intact frame is accepted and delivered from this very buffer first
        let ok_before = guarded(|| MessageFrame::new(g).is_ok() && next_msg_frame(g).1.is_some()).unwrap_or(false);
        for b in bits {
            flip(g, *b);
            flip(&mut gg[orig.len()..], *b);
        }
        let acc = guarded(|| MessageFrame::new(g).is_ok()).unwrap_or(true);
        let del = guarded(|| {
            let (c, m) = next_msg_frame(g);
            match m {
                Some(m) => m.frame_data().len() == g.len() && c == g.len() && m.frame_data().as_ptr() == g.as_ptr(),
                None => false,
            }
        })
        .unwrap_or(true);
        // intact frame followed by the damaged copy: the iterator may deliver frames that END inside the first copy only
        let del2 = guarded(|| {
            let mut it = MsgFrameIter::new(gg);
            let mut bad = false;
            let mut n = 0;
            for f in &mut it {
                n += 1;
                let start = f.frame_data().as_ptr() as usize - gg.as_ptr() as usize;
                if start + f.frame_data().len() > orig.len() && start + f.frame_data().len() == gg.len() && start == orig.len() {
                    bad = true; // the damaged copy itself was delivered
                }
                if n > 8 {
                    break;
                }
            }
            bad
        })
        .unwrap_or(true);
        // the damaged copy FOLLOWED by the intact frame: whatever is delivered must be the intact bytes of the second copy
        for b in bits {
            flip(&mut gg[orig.len()..], *b); // restore the second copy
            flip(&mut gg[..orig.len()], *b); // damage the first
        }
        let del3 = guarded(|| {
            let mut it = MsgFrameIter::new(gg);
            let mut bad = false;
            let mut n = 0;
            for f in &mut it {
                n += 1;
                let start = f.frame_data().as_ptr() as usize - gg.as_ptr() as usize;
                if f.frame_data().len() == orig.len() && (start == 0 || f.frame_data() != orig) {
                    bad = true; // the damaged copy (or its bytes under the intact frame's name) was delivered
                }
                if n > 8 {
                    break;
                }
            }
            bad
        })
        .unwrap_or(true);
        for b in bits {
            flip(g, *b);
            flip(&mut gg[..orig.len()], *b);
        }
        (acc || !ok_before, del || del2 || del3)
    })
}

/// C04: corruption campaigns with aggregated, lossless observations (frames are processed in parallel)
pub fn rec_corrupt(a: &Args, out: &mut Out) {
    let n = a.num("n", 300);
    let pairs = a.num("pairs", 2000) as usize;
    let interiors = a.num("interiors", 1) as usize;
    let threads = a.num("threads", 12) as usize;
    let mut r = rng(a.seed(), 4);
    let nums = supported_numbers();
    let frames: Vec<(Vec<u8>, u64)> = (0..n)
        .map(|k| {
            let f = match k % 5 {
                0 => mk_frame(&random_payload(&mut r, (k as usize / 5) % 6), 0),
                _ => random_frame(&mut r, &nums),
            };
            (f, r.gen())
        })
        .collect();
    let next = std::sync::atomic::AtomicUsize::new(0);
    let results: std::sync::Mutex<Vec<Option<Vec<J>>>> = std::sync::Mutex::new((0..frames.len()).map(|_| None).collect());
    std::thread::scope(|s| {
        for _ in 0..threads {
            s.spawn(|| {
                crate::util::install_panic_hook();
                loop {
                    let i = next.fetch_add(1, std::sync::atomic::Ordering::SeqCst);
                    if i >= frames.len() {
                        break;
                    }
                    let evs = corrupt_campaign(&frames[i].0, frames[i].1, pairs, interiors);
                    results.lock().unwrap()[i] = Some(evs);
                }
            });
        }
    });
    for evs in results.into_inner().unwrap().into_iter().flatten() {
        for e in evs {
            out.emit(e);
        }
    }
}

fn corrupt_campaign(f: &[u8], seed: u64, pairs: usize, interiors: usize) -> Vec<J> {
    let mut r = rng(seed, 44);
    let mut evs: Vec<J> = vec![];
    {
        let f = f.to_vec();
        let allowed = allowed_bits(f.len());
        let mut emit = |class: &str, tried: usize, acc: Vec<J>, del: Vec<J>| {
            evs.push(json!({"ev": "Corrupt", "frame": bytes_json(&f), "class": class, "tried": tried, "interiors": interiors, "accepted": acc, "delivered": del}));
        };
        // every single bit
        let (mut acc, mut del) = (vec![], vec![]);
        for b in &allowed {
            let (x, y) = try_corrupt(&f, &[*b]);
            if x {
                acc.push(json!([b]));
            }
            if y {
                del.push(json!([b]));
            }
        }
        emit("single", allowed.len(), acc, del);
        // pairs: all for short frames, sampled otherwise
        let (mut acc, mut del) = (vec![], vec![]);
        let mut tried = 0;
        if f.len() <= 16 {
            for i in 0..allowed.len() {
                for j in i + 1..allowed.len() {
                    let (x, y) = try_corrupt(&f, &[allowed[i], allowed[j]]);
                    tried += 1;
                    if x {
                        acc.push(json!([allowed[i], allowed[j]]));
                    }
                    if y {
                        del.push(json!([allowed[i], allowed[j]]));
                    }
                }
            }
            emit("pair-all", tried, acc, del);
        } else {
            for _ in 0..pairs {
                let i = r.gen_range(0..allowed.len());
                let mut j = r.gen_range(0..allowed.len() - 1);
                if j >= i {
                    j += 1;
                }
                let (x, y) = try_corrupt(&f, &[allowed[i], allowed[j]]);
                tried += 1;
                if x {
                    acc.push(json!([allowed[i], allowed[j]]));
                }
                if y {
                    del.push(json!([allowed[i], allowed[j]]));
                }
            }
            emit("pair-sampled", tried, acc, del);
        }
        // odd weights 3..31
        let (mut acc, mut del) = (vec![], vec![]);
        let mut tried = 0;
        for w in (3..=31).step_by(2) {
            if w > allowed.len() {
                break;
            }
            for _ in 0..4 {
                let mut set: Vec<usize> = vec![];
                while set.len() < w {
                    let b = allowed[r.gen_range(0..allowed.len())];
                    if !set.contains(&b) {
                        set.push(b);
                    }
                }
                let (x, y) = try_corrupt(&f, &set);
                tried += 1;
                if x {
                    acc.push(json!(set));
                }
                if y {
                    del.push(json!(set));
                }
            }
        }
        emit("odd", tried, acc, del);
        // bursts: every length 2..=24 at every start inside one region, both end bits flipped
        let (mut acc, mut del) = (vec![], vec![]);
        let mut tried = 0;
        for (lo, hi) in [(8usize, 14usize), (24, f.len() * 8)] {
            for len in 2..=24usize {
                if lo + len > hi {
                    continue;
                }
                for start in lo..=hi - len {
                    for it in 0..interiors {
                        let mut set = vec![start, start + len - 1];
                        for b in start + 1..start + len - 1 {
                            let on = if it == 0 { r.gen() } else if it == 1 { true } else { false };
                            if on {
                                set.push(b);
                            }
                        }
                        let (x, y) = try_corrupt(&f, &set);
                        tried += 1;
                        if x {
                            acc.push(json!(set));
                        }
                        if y {
                            del.push(json!(set));
                        }
                    }
                }
            }
        }
        emit("burst", tried, acc, del);
    }
    evs
}

// ---------------------------------------------------------------- replay of spec-generated behaviours (Gen_Stream)

/// Each input line is one behaviour of the Stream specification in the real profile: the stream,
/// the schedule of Feed / Scan operations with the scanner result the SPEC expects for every
/// scan, and the expected final state.  The behaviour is stepped through the real next_msg_frame
/// with the caller protocol of C06; every disagreement is written out.
pub fn replay_stream(a: &Args, out: &mut Out) {
    let input = std::fs::read_to_string(a.str("in", "")).expect("vectors");
    let mut nb = 0usize;
    let mut nscan = 0usize;
    for (vi, line) in input.lines().enumerate() {
        let v: J = match serde_json::from_str(line) {
            Ok(v) => v,
            Err(_) => continue,
        };
        nb += 1;
        let stream: Vec<u8> = v["stream"].as_array().unwrap().iter().map(|x| x.as_u64().unwrap() as u8).collect();
        let mut pending: Vec<u8> = vec![];
        let mut fed = 0usize;
        let mut base = 0usize;
        let mut delivered: Vec<(usize, usize)> = vec![];
        let mut bad = false;
        for (si, op) in v["ops"].as_array().unwrap().iter().enumerate() {
            if op["op"] == "feed" {
                let n = op["n"].as_u64().unwrap() as usize;
                pending.extend(&stream[fed..fed + n]);
                fed += n;
            } else {
                nscan += 1;
                let o = scan_obs(&pending);
                let consumed = o["consumed"].as_i64().unwrap_or(-1);
                let at = o["at"].as_i64().unwrap_or(-1);
                let len = o["len"].as_i64().unwrap_or(0);
                // the spec reports frame.at 1-based (0 = none)
                let exp = (op["consumed"].as_i64().unwrap(), op["at"].as_i64().unwrap() - 1, op["len"].as_i64().unwrap());
                if (consumed, at, len) != exp {
                    out.emit(json!({"ev": "Mismatch", "behaviour": vi, "step": si, "what": "scan", "expected": [exp.0, exp.1, exp.2], "got": [consumed, at, len],
                        "pending": bytes_json(&pending), "vector": v}));
                    bad = true;
                    break;
                }
                if at >= 0 {
                    delivered.push((base + at as usize + 1, len as usize));
                }
                pending.drain(..consumed as usize);
                base += consumed as usize;
            }
        }
        if !bad {
            let exp_del: Vec<(usize, usize)> = v["delivered"].as_array().unwrap().iter().map(|p| (p[0].as_u64().unwrap() as usize, p[1].as_u64().unwrap() as usize)).collect();
            if exp_del != delivered || v["base"].as_u64().unwrap() as usize != base || v["fed"].as_u64().unwrap() as usize != fed {
                out.emit(json!({"ev": "Mismatch", "behaviour": vi, "step": -1, "what": "final", "expected": [v["delivered"].clone(), v["base"].clone()], "got": [format!("{:?}", delivered), base], "vector": v}));
            }
        }
    }
    out.emit(json!({"ev": "ReplaySummary", "behaviours": nb, "scans": nscan}));
}

// ---------------------------------------------------------------- Link: sender -> channel -> receiver sessions

/// End-to-end sessions on the real code: a real MessageBuilder sends frames of real messages, the
/// channel puts noise without 0xD3 between them, the receiver feeds arbitrary chunks to the real
/// scanner (sending and receiving interleave) and decodes what is delivered.
pub fn rec_link(a: &Args, out: &mut Out) {
    let n = a.num("n", 150);
    let mut r = rng(a.seed(), 60);
    let nums = supported_numbers();
    for _ in 0..n {
        out.emit(json!({"ev": "LinkInit"}));
        let mut builder = MessageBuilder::new();
        let mut wire: Vec<u8> = vec![];
        let mut pending: Vec<u8> = vec![];
        let mut fed = 0usize;
        let mut base = 0usize;
        let mut delivered: Vec<J> = vec![];
        let mut got_digests: Vec<String> = vec![];
        let sends = r.gen_range(1..8);
        let mut sent = 0;
        let mut guard = 0;
        while (sent < sends || fed < wire.len()) && guard < 4000 {
            guard += 1;
            let can_send = sent < sends;
            let choice = r.gen_range(0..10);
            if can_send && (choice < 3 || fed == wire.len()) {
                // the sender builds a real message with its (reused) builder
                let num = *pick(&mut r, &nums);
                let tmpl = crate::msgen::template(&mut r, num);
                if let Some(m) = tmpl {
                    if let Ok(Ok(f)) = guarded(|| builder.build_message(&m).map(|f| f.to_vec())) {
                        let d = crate::msgen::decode_frame(&f).map(|d| digest(&crate::msgen::msg_to_v(&d).canon().to_string())).unwrap_or_default();
                        out.emit(json!({"ev": "Send", "frame": bytes_json(&f), "digest": d}));
                        wire.extend(&f);
                        sent += 1;
                    }
                }
            } else if can_send && choice == 3 {
                let k = r.gen_range(1..12);
                let g: Vec<u8> = (0..k).map(|_| loop { let b: u8 = r.gen(); if b != 0xD3 { break b; } }).collect();
                out.emit(json!({"ev": "Noise", "bytes": bytes_json(&g)}));
                wire.extend(&g);
            } else if fed < wire.len() {
                let left = wire.len() - fed;
                let k = (*pick(&mut r, &[1usize, 2, 3, 5, 6, 7, 19, 64, 300, 1029, 5000])).min(left);
                pending.extend(&wire[fed..fed + k]);
                fed += k;
                out.emit(json!({"ev": "Recv", "n": k}));
                // the receiver scans until no more progress (sometimes lazily)
                if r.gen_range(0..5) == 0 && (fed < wire.len() || sent < sends) {
                    continue;
                }
                loop {
                    let o = scan_obs(&pending);
                    let consumed = o["consumed"].as_i64().unwrap_or(-1);
                    let at = o["at"].as_i64().unwrap_or(-1);
                    let len = o["len"].as_i64().unwrap_or(0);
                    let mut e = o.clone();
                    e["ev"] = json!("Scan");
                    out.emit(e);
                    if consumed < 0 || consumed as usize > pending.len() {
                        break;
                    }
                    if at >= 0 {
                        delivered.push(json!([base as i64 + at + 1, len]));
                        let fr = &pending[at as usize..(at + len) as usize];
                        let d = guarded(|| crate::msgen::decode_frame(fr)).ok().flatten().map(|d| digest(&crate::msgen::msg_to_v(&d).canon().to_string())).unwrap_or_default();
                        got_digests.push(d);
                    }
                    pending.drain(..consumed as usize);
                    base += consumed as usize;
                    if consumed == 0 && at < 0 {
                        break;
                    }
                }
            }
        }
        // final scan to quiescence
        loop {
            let o = scan_obs(&pending);
            let consumed = o["consumed"].as_i64().unwrap_or(-1);
            let at = o["at"].as_i64().unwrap_or(-1);
            let len = o["len"].as_i64().unwrap_or(0);
            let mut e = o.clone();
            e["ev"] = json!("Scan");
            out.emit(e);
            if consumed < 0 || consumed as usize > pending.len() {
                break;
            }
            if at >= 0 {
                delivered.push(json!([base as i64 + at + 1, len]));
                let fr = &pending[at as usize..(at + len) as usize];
                let d = guarded(|| crate::msgen::decode_frame(fr)).ok().flatten().map(|d| digest(&crate::msgen::msg_to_v(&d).canon().to_string())).unwrap_or_default();
                got_digests.push(d);
            }
            pending.drain(..consumed as usize);
            base += consumed as usize;
            if consumed == 0 && at < 0 {
                break;
            }
        }
        out.emit(json!({"ev": "LinkEnd", "delivered": delivered, "base": base, "digests": got_digests}));
    }
}

/// replay of Gen_Frame vectors: MessageFrame::new on spec-chosen slices, compared with the
/// outcomes the specification admits and the observations it fixes
pub fn replay_frames(a: &Args, out: &mut Out) {
    let input = std::fs::read_to_string(a.str("in", "")).expect("vectors");
    let mut n = 0usize;
    for (vi, line) in input.lines().enumerate() {
        let v: J = match serde_json::from_str(line) {
            Ok(v) => v,
            Err(_) => continue,
        };
        n += 1;
        let bytes: Vec<u8> = v["bytes"].as_array().unwrap().iter().map(|x| x.as_u64().unwrap() as u8).collect();
        let o = observe_new(&bytes, false);
        let adm: Vec<String> = v["admissible"].as_array().unwrap().iter().map(|x| x.as_str().unwrap().to_string()).collect();
        let got = o["out"].as_str().unwrap_or("?").to_string();
        let mut ok = adm.contains(&got);
        if ok && got == "ok" {
            let e = &v["obs"];
            ok = o["flen"] == e["flen"] && o["dlen"] == e["dlen"] && o["crc"] == e["crc"] && o["num"] == e["num"]
                && o["data"] == json!([3, e["dlen"]]) && o["frame"] == json!([0, e["flen"]]);
        }
        if !ok {
            out.emit(json!({"ev": "Mismatch", "vector_index": vi, "vector": v, "got": o}));
        }
    }
    out.emit(json!({"ev": "ReplaySummary", "vectors": n}));
}
