//! C02 / C14: decoding of (mostly hostile) CRC-valid frames, in whichever build profile this
//! binary was compiled with.  Panics are data; a call exceeding the watchdog limit is a hang.

use crate::drv_bits::bits_of;
use crate::drv_build::it_kind;
use crate::frames::*;
use crate::msgen::*;
use crate::util::*;
use crate::value::*;
use rand::rngs::StdRng;
use rand::Rng;
use rtcm_rs::prelude::*;
use rtcm_rs::verif::sink;
use serde_json::{json, Value as J};
use std::sync::atomic::{AtomicU64, Ordering};
use std::sync::Mutex;

static CALL_SEQ: AtomicU64 = AtomicU64::new(0);
static CURRENT: Mutex<Vec<u8>> = Mutex::new(Vec::new());

/// a call of the library that does not return within `limit_s` is reported as a hang:
/// the input is written next to the trace and the process exits with status 7
pub fn start_watchdog(out_path: String, limit_s: u64) {
    std::thread::spawn(move || {
        let mut last = (0u64, std::time::Instant::now());
        loop {
            std::thread::sleep(std::time::Duration::from_millis(200));
            let seq = CALL_SEQ.load(Ordering::SeqCst);
            if seq != last.0 {
                last = (seq, std::time::Instant::now());
            } else if seq % 2 == 1 && last.1.elapsed().as_secs() >= limit_s {
                let cur = CURRENT.lock().map(|g| g.clone()).unwrap_or_default();
                let _ = std::fs::write(format!("{}.hang.json", out_path), json!({"ev": "Hang", "input": bytes_json(&cur)}).to_string());
                std::process::exit(7);
            }
        }
    });
}
pub fn enter(input: &[u8]) {
    if let Ok(mut g) = CURRENT.lock() {
        g.clear();
        g.extend_from_slice(input);
    }
    CALL_SEQ.fetch_add(1, Ordering::SeqCst); // odd: inside a call
}
pub fn leave() {
    CALL_SEQ.fetch_add(1, Ordering::SeqCst);
}

pub fn describe_message(m: &Message) -> J {
    let v = msg_to_v(m);
    let variant = v.variant_name().unwrap_or("?").to_string();
    let (out, carried) = match m {
        Message::Empty => ("Empty", -1i64),
        Message::Corrupt => ("Corrupt", -1),
        Message::MsgNotSupported(t) => ("MsgNotSupported", t.message_number as i64),
        _ => ("Typed", -1),
    };
    #[allow(clippy::eq_op)]
    let self_eq = m == m;
    json!({"out": out, "carried": carried, "variant": variant, "variant_number": variant_number(&variant),
        "number": m.number().map(|n| n as i64).unwrap_or(-1), "nonfinite": v.nonfinite(), "self_eq": self_eq})
}

/// decode one frame (given as bytes that MessageFrame::new accepts); emits Decode [Parse*] DecodeEnd
pub fn decode_events(frame: &[u8], hooked: bool, out: &mut Out, tag: &str) -> Option<Message> {
    enter(frame);
    if hooked {
        sink::install();
    }
    let res = guarded(|| match MessageFrame::new(frame) {
        Ok(mf) => Some(mf.get_message()),
        Err(_) => None,
    });
    let evs = if hooked { sink::take() } else { vec![] };
    leave();
    let mut e = match &res {
        Ok(Some(m)) => describe_message(m),
        Ok(None) => json!({"out": "notaframe"}),
        Err(p) => json!({"out": "panic", "panic": p}),
    };
    e["ev"] = json!("Decode");
    e["frame"] = bytes_json(frame);
    e["tag"] = json!(tag);
    e["hooked"] = json!(hooked);
    out.emit(e);
    let mut failed = false;
    for ev in &evs {
        match ev.op {
            "parse" => {
                let (kind, carrier) = it_kind(ev.it);
                let v: i128 = ev.value.parse().unwrap_or(0);
                if !ev.ok {
                    failed = true;
                }
                out.emit(json!({"ev": "Parse", "kind": kind, "carrier": carrier, "w": ev.len, "off": ev.off, "ok": ev.ok,
                    "vbits": if ev.ok { bits_of(v, carrier) } else { json!([]) }}));
            }
            "consume" => out.emit(json!({"ev": "Consume", "off": ev.off, "w": ev.len})),
            _ => {}
        }
    }
    out.emit(json!({"ev": "DecodeEnd", "parse_failed": failed}));
    match res {
        Ok(Some(m)) => Some(m),
        _ => None,
    }
}

fn payload_with_number(r: &mut StdRng, num: u16, len: usize, style: u8) -> Vec<u8> {
    let mut p: Vec<u8> = (0..len.max(2))
        .map(|_| match style {
            0 => r.gen(),
            1 => {
                if r.gen_range(0..6) == 0 {
                    r.gen()
                } else {
                    0
                }
            }
            2 => {
                if r.gen_range(0..6) == 0 {
                    r.gen()
                } else {
                    0xFF
                }
            }
            3 => 0,
            _ => 0xFF,
        })
        .collect();
    p[0] = (num >> 4) as u8;
    p[1] = (((num & 0xF) << 4) as u8) | (p[1] & 0x0F);
    p
}

/// hostile but CRC-valid frames for message number `num`
pub fn hostile_frames(r: &mut StdRng, num: u16, n: usize) -> Vec<(Vec<u8>, &'static str)> {
    let mut out = vec![];
    for k in 0..n {
        match k % 7 {
            6 => {
                // a valid generated frame with one or two 8-bit windows cleared to zero (a NUL inside a text field, a zero count, ...)
                if let Some(mut f) = lib_frame(r, num) {
                    let n = f.len();
                    for _ in 0..r.gen_range(1..=2) {
                        let start = r.gen_range(36..(n - 3) * 8 - 8);
                        for b in start..start + 8 {
                            f[b / 8] &= !(0x80 >> (b % 8));
                        }
                    }
                    refresh_crc(&mut f);
                    out.push((f, "zero-window"));
                }
            }
            0 | 1 => {
                let len = *pick(r, &[2usize, 3, 5, 8, 13, 21, 40, 80, 160, 300, 600, 1023]);
                let len = if r.gen() { len } else { r.gen_range(2..1024) };
                let style = r.gen_range(0..5);
                out.push((mk_frame(&payload_with_number(r, num, len, style), 0), "random-payload"));
            }
            2 | 3 => {
                // a valid generated frame with a few bit flips in the payload, checksum refreshed
                if let Some(mut f) = lib_frame(r, num) {
                    let nflip = r.gen_range(1..=8);
                    let n = f.len();
                    for _ in 0..nflip {
                        let bit = r.gen_range(36..(n - 3) * 8);
                        f[bit / 8] ^= 0x80 >> (bit % 8);
                    }
                    refresh_crc(&mut f);
                    out.push((f, "bitflips"));
                }
            }
            4 => {
                // a valid generated frame cut somewhere and re-framed
                if let Some(f) = lib_frame(r, num) {
                    let plen = f.len() - 6;
                    let cut = r.gen_range(2..=plen);
                    out.push((mk_frame(&f[3..3 + cut], 0), "truncated"));
                }
            }
            _ => {
                // all-ones / all-zero bodies of maximal length: every count field at its maximum
                let style = if r.gen() { 4 } else { 3 };
                let len = *pick(r, &[1023usize, 1022, 512, 64]);
                out.push((mk_frame(&payload_with_number(r, num, len, style), 0), "saturated"));
            }
        }
    }
    out
}

pub fn rec_decode(a: &Args, out: &mut Out) {
    let mut r = rng(a.seed(), 2);
    let per_type = a.num("per_type", 60) as usize;
    let hook_every = a.num("hook_every", 5) as usize;
    let nums = supported_numbers();
    let mut k = 0usize;
    for &num in &nums {
        for (f, tag) in hostile_frames(&mut r, num, per_type) {
            k += 1;
            decode_events(&f, k % hook_every == 0, out, tag);
        }
        for (f, tag) in structured_hostile(&mut r, num) {
            k += 1;
            decode_events(&f, k % hook_every == 0, out, tag);
        }
        // byte-truncations of frames the ENCODER produced (library-generated frame, decoded, built again):
        // every proper cut removes bits the decoder needs, so each must decode to Corrupt
        for _ in 0..2 {
            if let Some(t) = template(&mut r, num) {
                if let Ok(Ok(f)) = guarded(|| MessageBuilder::new().build_message(&t).map(|f| f.to_vec())) {
                    let plen = f.len() - 6;
                    let step = (plen / 120).max(1);
                    let mut cut = 2;
                    while cut < plen {
                        k += 1;
                        let g = mk_frame(&f[3..3 + cut], 0);
                        decode_events_parent(&g, &f, out);
                        cut += if cut + 8 >= plen { 1 } else { step };
                    }
                }
            }
        }
        // one untouched generated frame per type
        if let Some(f) = lib_frame(&mut r, num) {
            decode_events(&f, true, out, "generated");
        }
    }
    // frames found by the iterator in raw random byte strings
    let raw = a.num("raw", 200);
    for _ in 0..raw {
        let len = r.gen_range(0..3000);
        let buf: Vec<u8> = if r.gen() {
            (0..len).map(|_| if r.gen_range(0..8) == 0 { 0xD3 } else { r.gen() }).collect()
        } else {
            grammar_buffer(&mut r, &nums, 6, 3000).0
        };
        enter(&buf);
        let frames: Vec<Vec<u8>> = guarded(|| {
            let mut it = MsgFrameIter::new(&buf);
            let mut v = vec![];
            for mf in &mut it {
                v.push(mf.frame_data().to_vec());
                if v.len() > 4000 {
                    break;
                }
            }
            v
        })
        .unwrap_or_default();
        leave();
        for f in frames {
            decode_events(&f, false, out, "from-iterator");
        }
    }
}

/// C14: every message number x payload shapes, and the two short payloads
pub fn rec_classify(a: &Args, out: &mut Out) {
    let mut r = rng(a.seed(), 14);
    for n in 0..4096u16 {
        for (len, style) in [(2usize, 0u8), (5, 0), (40, 3), (40, 0), (1023, 4), (1023, 0), (300, 1)] {
            let p = payload_with_number(&mut r, n, len, style);
            decode_events(&mk_frame(&p, 0), false, out, "classify");
        }
    }
    for b in 0..=255u8 {
        decode_events(&mk_frame(&[b], 0), false, out, "dlen1");
        // the same frame followed by another frame (D1 shape)
        let mut two = mk_frame(&[b], 0);
        let first_len = two.len();
        two.extend(mk_frame(&[0x47, 0xE0, 0], 0));
        let _ = first_len;
        decode_events_in_buffer(&two, out);
    }
    decode_events(&mk_frame(&[], 0), false, out, "dlen0");
    let mut two = mk_frame(&[], 0);
    two.extend(mk_frame(&[0x3E, 0x90, 0], 0));
    decode_events_in_buffer(&two, out);
    // reverse direction: every typed variant reports the number it is encoded under
    for &num in &supported_numbers() {
        for _ in 0..2 {
            if let Some(f) = lib_frame(&mut r, num) {
                decode_events(&f, false, out, "generated");
            }
        }
    }
}

/// decode a byte-truncation of an encoder-produced frame; the event carries the parent frame
fn decode_events_parent(frame: &[u8], parent: &[u8], out: &mut Out) {
    enter(frame);
    let res = guarded(|| match MessageFrame::new(frame) {
        Ok(mf) => Some(mf.get_message()),
        Err(_) => None,
    });
    leave();
    let mut e = match &res {
        Ok(Some(m)) => describe_message(m),
        Ok(None) => json!({"out": "notaframe"}),
        Err(p) => json!({"out": "panic", "panic": p}),
    };
    e["ev"] = json!("Decode");
    e["frame"] = bytes_json(frame);
    e["parent"] = bytes_json(parent);
    e["tag"] = json!("encoder-cut");
    e["hooked"] = json!(false);
    out.emit(e);
    out.emit(json!({"ev": "DecodeEnd", "parse_failed": false}));
}

/// decode the first frame of a longer buffer (the frame is presented inside the buffer, not cut out)
fn decode_events_in_buffer(buf: &[u8], out: &mut Out) {
    enter(buf);
    let res = guarded(|| match next_msg_frame(buf) {
        (_, Some(mf)) => Some((mf.frame_data().to_vec(), mf.get_message())),
        _ => None,
    });
    leave();
    if let Ok(Some((frame, m))) = res {
        let mut e = describe_message(&m);
        e["ev"] = json!("Decode");
        e["frame"] = bytes_json(&frame);
        e["tag"] = json!("inside-buffer");
        e["hooked"] = json!(false);
        out.emit(e);
        out.emit(json!({"ev": "DecodeEnd", "parse_failed": false}));
    }
}

// ---------------------------------------------------------------- structure-aware hostile frames

pub struct BitW {
    pub bits: Vec<u8>,
}
impl BitW {
    pub fn new() -> Self {
        BitW { bits: vec![] }
    }
    pub fn put(&mut self, v: u64, w: usize) {
        for k in (0..w).rev() {
            self.bits.push(((v >> k) & 1) as u8);
        }
    }
    pub fn bytes(&self) -> Vec<u8> {
        let mut out = vec![0u8; (self.bits.len() + 7) / 8];
        for (i, b) in self.bits.iter().enumerate() {
            out[i / 8] |= b << (7 - i % 8);
        }
        out
    }
}

/// SSR code-bias frames (1059: 6-bit satellite ids, 1065: 5-bit) with chosen counts
pub fn bias_frame(r: &mut StdRng, num: u16, nsat: u64, per_sat: u64, codes: &[u64]) -> Vec<u8> {
    let mut w = BitW::new();
    w.put(num as u64, 12);
    let (epoch_bits, sat_bits) = if num == 1059 { (20, 6) } else { (17, 5) };
    w.put(r.gen::<u64>() & 0xFFFF, epoch_bits);
    w.put(r.gen_range(0..16), 4);
    w.put(0, 1);
    w.put(r.gen_range(0..16), 4);
    w.put(r.gen_range(0..65536), 16);
    w.put(r.gen_range(0..16), 4);
    w.put(nsat, 6);
    'outer: for s in 0..nsat {
        w.put(s % (1 << sat_bits), sat_bits);
        w.put(per_sat, 5);
        for j in 0..per_sat {
            w.put(codes[(j as usize) % codes.len()], 5);
            w.put(r.gen_range(0..(1 << 14)), 14);
            if w.bits.len() > 8150 {
                break 'outer;
            }
        }
    }
    let mut p = w.bytes();
    p.truncate(1023);
    mk_frame(&p, 0)
}

/// MSM frames with chosen numbers of satellite / signal mask bits and a chosen cell-mask fill
pub fn msm_mask_frame(r: &mut StdRng, num: u16, nsat: usize, sig_positions: &[usize], cell_fill: u8, body: usize) -> Vec<u8> {
    let mut w = BitW::new();
    w.put(num as u64, 12);
    w.put(r.gen_range(0..4096), 12);
    w.put(r.gen::<u64>() & 0x3FFF_FFFF, 30);
    w.put(0, 1);
    w.put(0, 3);
    w.put(0, 7);
    w.put(0, 2);
    w.put(0, 2);
    w.put(0, 1);
    w.put(0, 3);
    // satellite mask: the first nsat satellites
    for i in 0..64 {
        w.put((i < nsat) as u64, 1);
    }
    for p in 1..=32 {
        w.put(sig_positions.contains(&p) as u64, 1);
    }
    let ncell = nsat * sig_positions.len();
    for _ in 0..ncell.min(4000) {
        w.put(match cell_fill {
            0 => 0,
            1 => 1,
            _ => r.gen_range(0..2),
        }, 1);
    }
    while w.bits.len() < body * 8 {
        w.put(r.gen::<u64>() & 0xFF, 8);
    }
    let mut p = w.bytes();
    p.truncate(1023);
    mk_frame(&p, 0)
}

pub fn structured_hostile(r: &mut StdRng, num: u16) -> Vec<(Vec<u8>, &'static str)> {
    let mut out = vec![];
    if num == 1059 || num == 1065 {
        let codes: Vec<u64> = if num == 1059 { vec![0, 1, 2, 5, 6, 7, 8, 9, 10, 11, 14, 15] } else { vec![0, 1, 2, 3] };
        for (nsat, per) in [(13u64, 31u64), (63, 31), (21, 19), (30, 13), (13, 30), (63, 6), (63, 7), (0, 0), (1, 31), (12, 31), (13, 29)] {
            out.push((bias_frame(r, num, nsat, per, &codes), "bias-counts"));
            // the same counts with reserved signal codes mixed in
            let rf = bias_frame(r, num, nsat, per, &[0, 31, 1, 20]);
            // ... and cut short at a few places (a reserved code may then be the last thing in the body)
            if rf.len() > 16 {
                for _ in 0..3 {
                    let cut = r.gen_range(8..rf.len() - 6);
                    out.push((mk_frame(&rf[3..3 + cut], 0), "bias-reserved-codes-cut"));
                }
            }
            out.push((rf, "bias-reserved-codes"));
        }
    }
    if num == 1059 || num == 1065 {
        let rf = bias_frame(r, num, 2, 3, &[31, 0, 20]);
        for cut in 8..rf.len() - 6 {
            out.push((mk_frame(&rf[3..3 + cut], 0), "bias-reserved-codes-cut"));
        }
    }
    if (1071..=1137).contains(&num) && (num % 10) >= 1 && (num % 10) <= 7 {
        for (nsat, sigs, fill) in [
            (64usize, (1..=32).collect::<Vec<usize>>(), 1u8),
            (64, vec![2], 1),
            (33, vec![2, 3], 1),
            (13, vec![2, 3, 4, 8, 9], 1),
            (8, vec![2, 3, 4, 8, 9, 10, 15, 16], 2),
            (1, vec![1], 1),
            (1, vec![5, 6, 7], 1),
            (0, vec![2], 1),
            (3, vec![], 1),
            (64, vec![2, 3], 2),
            (2, (1..=32).collect(), 1),
            (3, (1..=22).collect(), 0),
        ] {
            for body in [30usize, 200, 1023] {
                out.push((msm_mask_frame(r, num, nsat, &sigs, fill, body), "msm-masks"));
            }
        }
    }
    out
}
