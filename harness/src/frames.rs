//! Frame construction for the drivers.  The CRC here only *constructs* inputs; every
//! frame the harness believes valid is re-classified by the TLA+ spec during trace
//! validation, so a mistake here shows up as a tool error, never as a verdict.

use rand::rngs::StdRng;
use rand::Rng;
use rtcm_rs::prelude::*;
use rtcm_rs::val_gen::ValGen;

pub fn crc24q(data: &[u8]) -> u32 {
    let mut crc: u32 = 0;
    for b in data {
        crc ^= (*b as u32) << 16;
        for _ in 0..8 {
            crc <<= 1;
            if crc & 0x100_0000 != 0 {
                crc ^= 0x186_4CFB;
            }
        }
    }
    crc & 0xFF_FFFF
}

/// frame around `payload` (<= 1023 bytes) with the six reserved bits set to `rsv`
pub fn mk_frame(payload: &[u8], rsv: u8) -> Vec<u8> {
    assert!(payload.len() <= 1023);
    let mut f = vec![0xD3, (rsv << 2) | ((payload.len() >> 8) as u8), (payload.len() & 0xFF) as u8];
    f.extend_from_slice(payload);
    let c = crc24q(&f);
    f.extend_from_slice(&[(c >> 16) as u8, (c >> 8) as u8, c as u8]);
    f
}

/// recompute length-independent checksum of an edited frame in place
pub fn refresh_crc(f: &mut [u8]) {
    let n = f.len();
    let c = crc24q(&f[..n - 3]);
    f[n - 3] = (c >> 16) as u8;
    f[n - 2] = (c >> 8) as u8;
    f[n - 1] = c as u8;
}

pub fn supported_numbers() -> Vec<u16> {
    let mut b = MessageBuilder::new();
    let mut out = vec![];
    for n in 0..4096u16 {
        // supported = the library's generator can build it (which error an unsupported number gets is not fixed by any property)
        let ok = (0..3u64).any(|k| {
            let mut vg = ValGen::new(crate::util::rng(1 + k, 1), crate::util::rng(1 + k, 2), crate::util::rng(1 + k, 3));
            b.build_generated_message(&mut vg, n).is_ok()
        });
        if ok {
            out.push(n);
        }
    }
    out
}

/// a frame of message type `number` produced by the library's own test generator
pub fn lib_frame(r: &mut StdRng, number: u16) -> Option<Vec<u8>> {
    let mut b = MessageBuilder::new();
    let s: u64 = r.gen();
    let mut vg = ValGen::new(crate::util::rng(s, 1), crate::util::rng(s, 2), crate::util::rng(s, 3));
    b.build_generated_message(&mut vg, number).ok().map(|f| f.to_vec())
}

pub fn random_payload(r: &mut StdRng, len: usize) -> Vec<u8> {
    let style = r.gen_range(0..4);
    (0..len)
        .map(|_| match style {
            0 => r.gen(),
            1 => {
                if r.gen_range(0..8) == 0 {
                    0xD3
                } else {
                    r.gen()
                }
            }
            2 => 0,
            _ => 0xFF,
        })
        .collect()
}

/// a valid frame with an arbitrary payload of a length drawn from a boundary-heavy mix
pub fn random_frame(r: &mut StdRng, nums: &[u16]) -> Vec<u8> {
    match r.gen_range(0..10) {
        0 => {
            let l = *crate::util::pick(r, &[0usize, 1, 2, 3, 255, 256, 257, 511, 512, 1022, 1023]);
            let p = random_payload(r, l);
            let rsv = if r.gen_range(0..4) == 0 { r.gen_range(0..64) } else { 0 };
            mk_frame(&p, rsv)
        }
        1 | 2 => {
            let l = r.gen_range(0..40);
            let p = random_payload(r, l);
            mk_frame(&p, 0)
        }
        3 => {
            let l = r.gen_range(0..1024);
            let p = random_payload(r, l);
            mk_frame(&p, 0)
        }
        _ => {
            let n = *crate::util::pick(r, nums);
            lib_frame(r, n).unwrap_or_else(|| mk_frame(&[], 0))
        }
    }
}

/// One piece of the buffer grammar of C05/C06.
pub fn piece(r: &mut StdRng, nums: &[u16], out: &mut Vec<u8>) -> &'static str {
    match r.gen_range(0..14) {
        12 => {
            // a frame at / next to the maximum length (payload 1019..=1023)
            let l = r.gen_range(1019..=1023);
            let p = random_payload(r, l);
            out.extend(mk_frame(&p, 0));
            "max-frame"
        }
        13 => {
            // ... cut inside its last bytes (checksum region)
            let l = r.gen_range(1019..=1023);
            let p = random_payload(r, l);
            let f = mk_frame(&p, 0);
            let cut = f.len() - r.gen_range(1..=6);
            out.extend(&f[..cut]);
            "max-frame-truncated"
        }
        0 | 1 | 2 => {
            out.extend(random_frame(r, nums));
            "frame"
        }
        3 => {
            let mut f = random_frame(r, nums);
            let bit = r.gen_range(8..f.len() * 8);
            if (14..24).contains(&bit) {
                let k = 3.min(f.len() - 1);
                f[k] ^= 1;
            } else {
                f[bit / 8] ^= 0x80 >> (bit % 8);
            }
            out.extend(f);
            "corrupt"
        }
        4 => {
            let f = random_frame(r, nums);
            let cut = r.gen_range(1..f.len());
            out.extend(&f[..cut]);
            "truncated"
        }
        5 => {
            out.push(0xD3);
            "stray"
        }
        6 => {
            // header announcing a long body that never comes
            out.extend(&[0xD3, r.gen_range(0..4), r.gen()]);
            let n = r.gen_range(0..20);
            out.extend(random_payload(r, n));
            "longhdr"
        }
        7 => {
            let n = r.gen_range(1..60);
            out.extend(random_payload(r, n));
            "garbage"
        }
        8 => {
            // valid frame nested in the payload of a corrupted outer candidate
            let inner = random_frame(r, nums);
            if inner.len() + 4 <= 1023 {
                let mut p = vec![r.gen(), r.gen()];
                p.extend(&inner);
                p.extend(&[r.gen(), r.gen()]);
                let mut f = mk_frame(&p, 0);
                let n = f.len();
                f[n - 1] ^= 1 << r.gen_range(0..8);
                out.extend(f);
            }
            "nested-in-corrupt"
        }
        9 => {
            // valid frame nested in the payload of a valid outer frame
            let inner = random_frame(r, nums);
            if inner.len() + 4 <= 1023 {
                let mut p = vec![0x3E, 0x80];
                p.extend(&inner);
                p.extend(&[r.gen(), r.gen()]);
                out.extend(mk_frame(&p, 0));
            }
            "nested-in-valid"
        }
        10 => {
            // 0xD3 whose declared extent ends exactly at / one short of a later frame boundary
            let f = random_frame(r, nums);
            out.extend(&[0xD3, 0x00, f.len().min(255) as u8]);
            out.extend(f);
            "overlap"
        }
        _ => {
            let n = r.gen_range(0..6);
            out.extend(std::iter::repeat(0xD3).take(n));
            "preamble-run"
        }
    }
}

pub fn grammar_buffer(r: &mut StdRng, nums: &[u16], max_pieces: usize, max_len: usize) -> (Vec<u8>, Vec<&'static str>) {
    let mut buf = vec![];
    let mut tags = vec![];
    let n = r.gen_range(0..=max_pieces);
    for _ in 0..n {
        let mut p = vec![];
        let t = piece(r, nums, &mut p);
        if buf.len() + p.len() > max_len {
            break;
        }
        buf.extend(p);
        tags.push(t);
    }
    (buf, tags)
}
