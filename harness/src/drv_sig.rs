//! C18: the observable signal-identifier tables of each constellation: validity over the whole
//! public descriptor space, wire position of every valid descriptor (seen on the signal mask of a
//! one-cell MSM4 message), decode of every mask position, and the comparison matrix.

use crate::frames::*;
use crate::msgen::*;
use crate::special_msm::*;
use crate::util::*;
use rand::Rng;
use rtcm_rs::msg::*;
use rtcm_rs::prelude::*;
use serde_json::{json, Value as J};

fn bit(f: &[u8], payload_bit: usize) -> u8 {
    let g = 24 + payload_bit;
    (f[g / 8] >> (7 - g % 8)) & 1
}
fn set_bit(f: &mut [u8], payload_bit: usize, v: u8) {
    let g = 24 + payload_bit;
    if v == 1 {
        f[g / 8] |= 0x80 >> (g % 8);
    } else {
        f[g / 8] &= !(0x80 >> (g % 8));
    }
}
/// MSM header: 12+12+30+1+3+7+2+2+1+3 = 73 bits, then 64-bit satellite mask, 32-bit signal mask, cell mask
pub const SAT_MASK_OFF: usize = 73;
pub const SIG_MASK_OFF: usize = 137;
pub const CELL_MASK_OFF: usize = 169;

macro_rules! cmp_fn {
    ($name:ident, $t:ty) => {
        fn $name(a: (u8, char), b: (u8, char)) -> (i8, i8, bool) {
            let x = <$t>::new(a.0, a.1);
            let y = <$t>::new(b.0, b.1);
            let o = match x.cmp(&y) {
                std::cmp::Ordering::Less => -1,
                std::cmp::Ordering::Equal => 0,
                std::cmp::Ordering::Greater => 1,
            };
            let p = match x.partial_cmp(&y) {
                Some(std::cmp::Ordering::Less) => -1,
                Some(std::cmp::Ordering::Equal) => 0,
                Some(std::cmp::Ordering::Greater) => 1,
                None => 2,
            };
            (o, p, x == y)
        }
    };
}
cmp_fn!(cmp_gps, GpsSigId);
cmp_fn!(cmp_glo, GloSigId);
cmp_fn!(cmp_gal, GalSigId);
cmp_fn!(cmp_sbas, SbasSigId);
cmp_fn!(cmp_qzss, QzssSigId);
cmp_fn!(cmp_bds, BdsSigId);
cmp_fn!(cmp_navic, NavicSigId);

fn cmp_dyn(g: &str, a: (u8, char), b: (u8, char)) -> (i8, i8, bool) {
    match g {
        "gps" => cmp_gps(a, b),
        "glo" => cmp_glo(a, b),
        "gal" => cmp_gal(a, b),
        "sbas" => cmp_sbas(a, b),
        "qzss" => cmp_qzss(a, b),
        "bds" => cmp_bds(a, b),
        _ => cmp_navic(a, b),
    }
}

pub fn rec_sigtable(a: &Args, out: &mut Out) {
    let mut r = rng(a.seed(), 18);
    for (g, base) in MSM_GNSS {
        let num = base + 4;
        // validity over band 0..=255 x attribute U+0000..U+00FF plus sampled other characters
        let mut valid: Vec<(u8, char)> = valid_sigs(g);
        let mut probed = 256 * 256;
        let mut extra_valid = vec![];
        for _ in 0..2000 {
            let c = loop {
                if let Some(c) = char::from_u32(r.gen_range(0x100..0x11_0000)) {
                    break c;
                }
            };
            let b: u8 = r.gen();
            probed += 1;
            if is_valid_sig(g, b, c) {
                extra_valid.push(json!([b, c as u32]));
            }
        }
        // characters that share their low byte (or low bits) with a recognised attribute, in the same band
        for (b, c) in valid.clone() {
            for k in 1..=24u32 {
                for cand in [(c as u32) + 0x100 * k, (c as u32) + 0x10000 * k, (c as u32) | (1 << (8 + k % 12))] {
                    if let Some(ch) = char::from_u32(cand) {
                        probed += 1;
                        if ch != c && is_valid_sig(g, b, ch) {
                            extra_valid.push(json!([b, ch as u32]));
                        }
                    }
                }
            }
        }
        // wire position of every valid descriptor
        let t = msm_templates(&mut r, num);
        let mut pos = vec![];
        let mut base_frame: Option<Vec<u8>> = None;
        if let Some(t) = &t {
            for (b, c) in &valid {
                let m = msm_message(&mut r, t, &[5], &[(5, *b, *c)]);
                let f = m.ok().and_then(|m| guarded(|| MessageBuilder::new().build_message(&m).map(|f| f.to_vec()).ok()).ok().flatten());
                match f {
                    Some(f) => {
                        let set: Vec<usize> = (1..=32).filter(|p| bit(&f, SIG_MASK_OFF + p - 1) == 1).collect();
                        pos.push(json!([b, *c as u32, set]));
                        if base_frame.is_none() {
                            base_frame = Some(f);
                        }
                    }
                    None => pos.push(json!([b, *c as u32, []])),
                }
            }
        }
        // decode of every mask position
        let mut dec = vec![];
        if let Some(bf) = &base_frame {
            for p in 1..=32usize {
                let mut f = bf.clone();
                for q in 1..=32 {
                    set_bit(&mut f, SIG_MASK_OFF + q - 1, (q == p) as u8);
                }
                refresh_crc(&mut f);
                let d = guarded(|| decode_frame(&f));
                let e = match d {
                    Ok(Some(m)) => {
                        let v = msg_to_v(&m);
                        let cell = v.field("data_segment").and_then(|d| d.field("signal_data")).and_then(|s| s.as_seq().cloned()).and_then(|s| s.get(0).cloned());
                        match (m.number(), cell) {
                            (Some(_), Some(c)) => {
                                match c.field("signal_id").map(sig_of) {
                                    Some((b, a)) if b >= 0 => json!([p, b, a]),
                                    _ => json!([p, -2, -2]),
                                }
                            }
                            _ => json!([p, -1, -1]), // Corrupt
                        }
                    }
                    _ => json!([p, -3, -3]),
                };
                dec.push(e);
            }
        }
        // comparison matrix over all recognised descriptors + unrecognised ones
        let mut sample: Vec<(u8, char)> = valid.clone();
        let v0 = valid.get(0).cloned().unwrap_or((1, 'C'));
        for u in [(0u8, 'A'), (9, 'Z'), (v0.0, '?'), (v0.0.wrapping_add(100), v0.1), (255, 'C'), (1, 'c'), (1, '\u{0}'), (200, 'é'), (3, 'Q'), (4, 'A'), (7, '漢'), (0, '\u{10ffff}')] {
            if !is_valid_sig(g, u.0, u.1) {
                sample.push(u);
            }
        }
        valid.truncate(64);
        let mut cmp = vec![];
        for i in 0..sample.len() {
            for j in 0..sample.len() {
                let (o, p, e) = cmp_dyn(g, sample[i], sample[j]);
                cmp.push(json!([i + 1, j + 1, o, p, e as u8]));
            }
        }
        out.emit(json!({"ev": "SigTable", "gnss": g, "probed": probed,
            "valid": valid.iter().map(|(b, c)| json!([b, *c as u32])).collect::<Vec<_>>(),
            "extra_valid": extra_valid,
            "pos": pos, "decode": dec,
            "sample": sample.iter().map(|(b, c)| json!([b, *c as u32])).collect::<Vec<_>>(),
            "sample_valid": sample.iter().map(|(b, c)| is_valid_sig(g, *b, *c) as u8).collect::<Vec<_>>(),
            "cmp": cmp}));
    }
}
