//! Constructors for MSM messages and SSR / GLONASS bias lists with chosen keys, built from
//! template rows of decoded generated frames (so all other field values are on grid).

use crate::msgen::*;
use crate::util::*;
use crate::value::*;
use rand::rngs::StdRng;
use rand::Rng;
use rtcm_rs::msg::*;
use rtcm_rs::prelude::*;

pub const MSM_GNSS: [(&str, u16); 7] =
    [("gps", 1070), ("glo", 1080), ("gal", 1090), ("sbas", 1100), ("qzss", 1110), ("bds", 1120), ("navic", 1130)];

pub fn gnss_of(num: u16) -> Option<&'static str> {
    MSM_GNSS.iter().find(|(_, b)| num > *b && num <= *b + 7).map(|(g, _)| *g)
}

pub fn is_valid_sig(gnss: &str, band: u8, attr: char) -> bool {
    match gnss {
        "gps" => GpsSigId::new(band, attr).is_valid(),
        "glo" => GloSigId::new(band, attr).is_valid(),
        "gal" => GalSigId::new(band, attr).is_valid(),
        "sbas" => SbasSigId::new(band, attr).is_valid(),
        "qzss" => QzssSigId::new(band, attr).is_valid(),
        "bds" => BdsSigId::new(band, attr).is_valid(),
        "navic" => NavicSigId::new(band, attr).is_valid(),
        _ => false,
    }
}

/// recognised descriptors of a constellation, as the library reports them
pub fn valid_sigs(gnss: &str) -> Vec<(u8, char)> {
    let mut v = vec![];
    for band in 0..=255u8 {
        for a in 0..=255u32 {
            let c = char::from_u32(a).unwrap();
            if is_valid_sig(gnss, band, c) {
                v.push((band, c));
            }
        }
    }
    v
}

/// value-tree image of a signal descriptor, in whatever serde representation the library gives its SigId types
/// (all constellations' SigId types come from one macro and share it)
pub fn sig_v(band: u8, attr: char) -> V {
    crate::value::to_v(&GpsSigId::new(band, attr)).unwrap_or_else(|_| V::TupleStruct("SigId".into(), vec![V::u(8, band as u64), V::Char(attr)]))
}

/// (band, attribute) of a signal-descriptor node, independent of its serde representation; (-1, -1) if it is none
pub fn sig_of(v: &V) -> (i64, i64) {
    match v {
        V::TupleStruct(_, xs) if xs.len() == 2 && xs[0].as_i128().is_some() && matches!(xs[1], V::Char(_)) => {
            (xs[0].as_i128().unwrap_or(-1) as i64, if let V::Char(c) = xs[1] { c as i64 } else { -1 })
        }
        V::Newtype(_, x) => sig_of(x),
        _ => match crate::value::from_v::<GpsSigId>(v.clone()) {
            Ok(s) => (s.band() as i64, s.attribute() as i64),
            Err(_) => (-1, -1),
        },
    }
}

pub struct MsmTemplates {
    pub base: V,
    pub sat_rows: Vec<V>,
    pub cell_rows: Vec<V>,
}

pub fn msm_templates(r: &mut StdRng, num: u16) -> Option<MsmTemplates> {
    let mut base = None;
    let mut sat_rows = vec![];
    let mut cell_rows = vec![];
    for _ in 0..12 {
        if let Some(t) = template(r, num) {
            let v = msg_to_v(&t);
            if let Some(ds) = v.field("data_segment") {
                if let (Some(s), Some(c)) = (ds.field("satellite_data").and_then(|x| x.as_seq()), ds.field("signal_data").and_then(|x| x.as_seq())) {
                    sat_rows.extend(s.iter().cloned());
                    cell_rows.extend(c.iter().cloned());
                }
            }
            base = Some(v);
            if sat_rows.len() >= 8 && cell_rows.len() >= 64 {
                break;
            }
        }
    }
    if sat_rows.is_empty() || cell_rows.is_empty() {
        return None;
    }
    Some(MsmTemplates { base: base?, sat_rows, cell_rows })
}

fn set_key(row: &mut V, name: &str, val: V) {
    if let V::Struct(_, fs) = row {
        for (k, v) in fs.iter_mut() {
            if k == name {
                *v = val.clone();
            }
        }
    }
}

/// an MSM message of type `num` with exactly these satellite rows and cell rows (in this order)
pub fn msm_message(r: &mut StdRng, t: &MsmTemplates, sats: &[u8], cells: &[(u8, u8, char)]) -> Result<Message, String> {
    let mut v = t.base.clone();
    let srows: Vec<V> = sats
        .iter()
        .map(|s| {
            let mut row = t.sat_rows[r.gen_range(0..t.sat_rows.len())].clone();
            set_key(&mut row, "satellite_id", V::u(8, *s as u64));
            row
        })
        .collect();
    let crows: Vec<V> = cells
        .iter()
        .map(|(s, b, a)| {
            let mut row = t.cell_rows[r.gen_range(0..t.cell_rows.len())].clone();
            set_key(&mut row, "satellite_id", V::u(8, *s as u64));
            set_key(&mut row, "signal_id", sig_v(*b, *a));
            row
        })
        .collect();
    let ds = v.field_mut("data_segment").ok_or("no data_segment")?;
    *ds.field_mut("satellite_data").ok_or("no satellite_data")?.as_seq_mut().ok_or("sat seq")? = srows;
    *ds.field_mut("signal_data").ok_or("no signal_data")?.as_seq_mut().ok_or("cell seq")? = crows;
    v_to_msg(&v)
}

/// MSM inputs at the edges of the preconditions of C10 (used by C09/C12 message streams too)
pub fn msm_specials(r: &mut StdRng) -> Vec<Message> {
    let mut out = vec![];
    for num in [1074u16, 1077, 1085, 1097, 1094, 1107, 1117, 1127, 1131] {
        let g = gnss_of(num).unwrap();
        let sigs = valid_sigs(g);
        let t = match msm_templates(r, num) {
            Some(t) => t,
            None => continue,
        };
        let mut add = |sats: Vec<u8>, cells: Vec<(u8, u8, char)>, r: &mut StdRng| {
            if let Ok(m) = msm_message(r, &t, &sats, &cells) {
                out.push(m);
            }
        };
        let s0 = sigs[0];
        // satellite 0 / 65 / 255
        for bad in [0u8, 65, 255] {
            add(vec![bad], vec![(bad, s0.0, s0.1)], r);
        }
        // unrecognised signal
        add(vec![3], vec![(3, 9, '?')], r);
        // duplicates
        add(vec![3, 3], vec![(3, s0.0, s0.1)], r);
        add(vec![3], vec![(3, s0.0, s0.1), (3, s0.0, s0.1)], r);
        // satellite rows disagreeing with cell rows
        add(vec![3, 4], vec![(3, s0.0, s0.1)], r);
        add(vec![3], vec![(3, s0.0, s0.1), (4, s0.0, s0.1)], r);
        // one list empty, the other not; cells only for satellites that have no row
        add(vec![], vec![(3, s0.0, s0.1)], r);
        add(vec![], vec![(3, s0.0, s0.1), (64, s0.0, s0.1), (1, s0.0, s0.1)], r);
        add(vec![3], vec![], r);
        add(vec![5, 6], vec![(7, s0.0, s0.1), (8, s0.0, s0.1)], r);
        // every recognised signal of the constellation at once (the widest signal mask), on as many satellites as fit
        {
            let ns = (64 / sigs.len()).max(1);
            let sats: Vec<u8> = (1..=ns as u8).map(|i| i * 3).collect();
            let mut cells = vec![];
            for s in &sats {
                for sg in &sigs {
                    cells.push((*s, sg.0, sg.1));
                }
            }
            cells.truncate(64);
            add(sats, cells, r);
        }
        // |S| * |G| around 64
        let nsig = sigs.len();
        for (ns, ng) in [(64usize, 1usize), (32, 2), (16, 4), (13, 5), (5, 13), (33, 2), (22, 3), (17, 4), (11, 6), (64, 2)] {
            if ng > nsig {
                continue;
            }
            let sats: Vec<u8> = (1..=ns as u8).collect();
            // a sparse set of cells that still uses every satellite and every signal (<= 64 rows)
            let mut cells = vec![];
            for (i, s) in sats.iter().enumerate() {
                let sg = sigs[i % ng];
                cells.push((*s, sg.0, sg.1));
            }
            for j in 0..ng {
                if !cells.iter().any(|c| (c.1, c.2) == sigs[j]) {
                    cells.push((sats[0], sigs[j].0, sigs[j].1));
                }
            }
            cells.truncate(64);
            add(sats, cells, r);
        }
        // empty
        add(vec![], vec![], r);
        // a full 64-cell message in reversed order
        let mut sats: Vec<u8> = vec![64, 1, 33, 2];
        let ng = nsig.min(16);
        let mut cells = vec![];
        for s in &sats {
            for j in 0..ng {
                cells.push((*s, sigs[j].0, sigs[j].1));
            }
        }
        cells.reverse();
        sats.reverse();
        add(sats, cells, r);
    }
    out
}

fn bias_row(sat: u8, band: u8, attr: char, bias: f32) -> V {
    V::Struct(
        "CodeBias".into(),
        vec![("satellite_id".into(), V::u(8, sat as u64)), ("signal_id".into(), sig_v(band, attr)), ("bias_m".into(), V::F32(bias))],
    )
}

/// a 1059 / 1065 message with the given (satellite, band, attr, bias) entries in this order
pub fn bias_message(r: &mut StdRng, num: u16, entries: &[(u8, u8, char, f32)]) -> Result<Message, String> {
    let t = template(r, num).ok_or("no template")?;
    let mut v = msg_to_v(&t);
    let rows: Vec<V> = entries.iter().map(|(s, b, a, x)| bias_row(*s, *b, *a, *x)).collect();
    *v.field_mut("biases").ok_or("no biases")?.as_seq_mut().ok_or("seq")? = rows;
    v_to_msg(&v)
}

pub fn msg1230(r: &mut StdRng, entries: &[(u8, char, f32)]) -> Result<Message, String> {
    let t = template(r, 1230).ok_or("no template")?;
    let mut v = msg_to_v(&t);
    let rows: Vec<V> = entries
        .iter()
        .map(|(b, a, x)| V::Struct("B".into(), vec![("signal_id".into(), sig_v(*b, *a)), ("bias_m".into(), V::F32(*x))]))
        .collect();
    *v.field_mut("glo_code_phase_biases").ok_or("no biases")?.as_seq_mut().ok_or("seq")? = rows;
    v_to_msg(&v)
}

pub const SSR_GPS: [(u8, char); 12] =
    [(1, 'C'), (1, 'P'), (1, 'W'), (2, 'C'), (2, 'D'), (2, 'S'), (2, 'L'), (2, 'X'), (2, 'P'), (2, 'W'), (5, 'I'), (5, 'Q')];
pub const SSR_GLO: [(u8, char); 4] = [(1, 'C'), (1, 'P'), (2, 'C'), (2, 'P')];

pub fn bias_specials(r: &mut StdRng) -> Vec<Message> {
    let mut out = vec![];
    for nsat in [0usize, 1, 32, 33, 63, 64] {
        for per in [1usize, 6, 12] {
            if nsat * per > 390 {
                continue;
            }
            let mut e = vec![];
            for s in 0..nsat {
                for j in 0..per {
                    e.push((s as u8, SSR_GPS[j].0, SSR_GPS[j].1, ((s * 13 + j) as f32 - 40.0) * 0.01));
                }
            }
            if let Ok(m) = bias_message(r, 1059, &e) {
                out.push(m);
            }
        }
    }
    for nsat in [0usize, 1, 31, 32] {
        let mut e = vec![];
        for s in 0..nsat {
            for j in 0..4 {
                e.push((s as u8, SSR_GLO[j].0, SSR_GLO[j].1, (s as f32 - 9.0) * 0.01));
            }
        }
        if let Ok(m) = bias_message(r, 1065, &e) {
            out.push(m);
        }
    }
    // lists filled to (just below / exactly) the container capacity of 390 entries
    for (num, table) in [(1059u16, SSR_GPS.to_vec()), (1065u16, SSR_GLO.to_vec())] {
        for total in [388usize, 389, 390] {
            for per in [30usize, 13, 12, 10] {
                let maxsat = if num == 1059 { 64 } else { 32 };
                let mut e = vec![];
                let mut s = 0usize;
                while e.len() < total && s < maxsat {
                    for j in 0..per {
                        if e.len() < total {
                            e.push((s as u8, table[j % table.len()].0, table[j % table.len()].1, ((s * 7 + j) as f32 - 100.0) * 0.01));
                        }
                    }
                    s += 1;
                }
                if e.len() == total {
                    if let Ok(m) = bias_message(r, num, &e) {
                        out.push(m);
                    }
                }
            }
        }
    }
    // very many entries for ONE satellite (repeated signals): the per-satellite count must not wrap silently or panic
    for (num, table) in [(1059u16, SSR_GPS.to_vec()), (1065u16, SSR_GLO.to_vec())] {
        for total in [32usize, 33, 255, 256, 257, 288, 390] {
            let e: Vec<(u8, u8, char, f32)> = (0..total).map(|j| (9u8, table[j % table.len()].0, table[j % table.len()].1, (j as f32 - 50.0) * 0.01)).collect();
            if let Ok(m) = bias_message(r, num, &e) {
                out.push(m);
            }
        }
    }
    // out-of-range satellite, unrecognised signal
    for e in [vec![(64u8, 1u8, 'C', 0.0f32)], vec![(200, 1, 'C', 0.0)], vec![(3, 9, 'Z', 0.5)]] {
        if let Ok(m) = bias_message(r, 1059, &e) {
            out.push(m);
        }
        if let Ok(m) = bias_message(r, 1065, &e) {
            out.push(m);
        }
    }
    for e in [vec![], vec![(1u8, 'C', 1.0f32)], vec![(2, 'P', -3.0), (1, 'C', 2.0), (2, 'C', 0.02), (1, 'P', 655.0)], vec![(5, 'X', 1.0)]] {
        if let Ok(m) = msg1230(r, &e) {
            out.push(m);
        }
    }
    let _ = r.gen::<u8>();
    out
}
