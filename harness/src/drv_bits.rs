//! C07: sessions on the real Assembler / Parser (reached through the cfg(rtcm_rs_verif)
//! re-export).  Carrier values travel as two's-complement bit arrays (a representation,
//! not an oracle); TLC carries the buffer and cursor and judges every step.

use crate::util::*;
use rand::rngs::StdRng;
use rand::Rng;
use rtcm_rs::verif::bit_value::*;
use rtcm_rs::verif::{Assembler, Parser};
use serde_json::{json, Value as J};

pub trait Car: BitValue {
    const BITS: u32;
    const KIND: &'static str;
    fn from_i128(v: i128) -> Self::ValueType;
    fn to_i128(v: Self::ValueType) -> i128;
}
macro_rules! car {
    ($m:ident, $t:ty, $k:literal) => {
        impl Car for $m {
            const BITS: u32 = <$t>::BITS;
            const KIND: &'static str = $k;
            fn from_i128(v: i128) -> $t {
                v as $t
            }
            fn to_i128(v: $t) -> i128 {
                v as i128
            }
        }
    };
}
car!(U8, u8, "u");
car!(U16, u16, "u");
car!(U32, u32, "u");
car!(U64, u64, "u");
car!(I8, i8, "s");
car!(I16, i16, "s");
car!(I32, i32, "s");
car!(I64, i64, "s");
car!(SM8, i8, "sm");
car!(SM16, i16, "sm");
car!(SM32, i32, "sm");
car!(SM64, i64, "sm");

pub fn bits_of(v: i128, n: u32) -> J {
    J::Array((0..n).map(|k| J::from(((v >> (n - 1 - k)) & 1) as u8)).collect())
}

fn put_t<T: Car>(asm: &mut Assembler, v: i128, w: usize) -> Result<bool, String> {
    guarded(|| asm.put::<T>(T::from_i128(v), w).is_ok())
}
fn parse_t<T: Car>(par: &mut Parser, w: usize) -> Result<Option<i128>, String> {
    guarded(|| par.parse::<T>(w).ok().map(T::to_i128))
}
pub fn put_dyn(asm: &mut Assembler, kind: &str, carrier: u32, v: i128, w: usize) -> Result<bool, String> {
    match (kind, carrier) {
        ("u", 8) => put_t::<U8>(asm, v, w),
        ("u", 16) => put_t::<U16>(asm, v, w),
        ("u", 32) => put_t::<U32>(asm, v, w),
        ("u", 64) => put_t::<U64>(asm, v, w),
        ("s", 8) => put_t::<I8>(asm, v, w),
        ("s", 16) => put_t::<I16>(asm, v, w),
        ("s", 32) => put_t::<I32>(asm, v, w),
        ("s", 64) => put_t::<I64>(asm, v, w),
        ("sm", 8) => put_t::<SM8>(asm, v, w),
        ("sm", 16) => put_t::<SM16>(asm, v, w),
        ("sm", 32) => put_t::<SM32>(asm, v, w),
        ("sm", 64) => put_t::<SM64>(asm, v, w),
        _ => panic!("bad kind/carrier"),
    }
}
pub fn parse_dyn(par: &mut Parser, kind: &str, carrier: u32, w: usize) -> Result<Option<i128>, String> {
    match (kind, carrier) {
        ("u", 8) => parse_t::<U8>(par, w),
        ("u", 16) => parse_t::<U16>(par, w),
        ("u", 32) => parse_t::<U32>(par, w),
        ("u", 64) => parse_t::<U64>(par, w),
        ("s", 8) => parse_t::<I8>(par, w),
        ("s", 16) => parse_t::<I16>(par, w),
        ("s", 32) => parse_t::<I32>(par, w),
        ("s", 64) => parse_t::<I64>(par, w),
        ("sm", 8) => parse_t::<SM8>(par, w),
        ("sm", 16) => parse_t::<SM16>(par, w),
        ("sm", 32) => parse_t::<SM32>(par, w),
        ("sm", 64) => parse_t::<SM64>(par, w),
        _ => panic!("bad kind/carrier"),
    }
}

#[derive(Clone)]
struct Case {
    kind: &'static str,
    carrier: u32,
    w: usize,
    v: i128,
    any: bool, // value need not be representable: only totality and the frame condition are demanded
}

fn repr_range(kind: &str, w: usize) -> (i128, i128) {
    match kind {
        "u" => (0, (1i128 << w) - 1),
        "s" => (-(1i128 << (w - 1)), (1i128 << (w - 1)) - 1),
        _ => (-((1i128 << (w - 1)) - 1), (1i128 << (w - 1)) - 1),
    }
}

fn cases(r: &mut StdRng, exhaustive_w: usize, random_per: usize) -> Vec<Case> {
    let mut out = vec![];
    for kind in ["u", "s", "sm"] {
        for carrier in [8u32, 16, 32, 64] {
            let minw = if kind == "sm" { 2 } else { 1 };
            for w in minw..=carrier as usize {
                let (lo, hi) = repr_range(kind, w);
                // values outside the representable range, up to the ends of the carrier type
                let (cmin, cmax): (i128, i128) = if kind == "u" { (0, (1i128 << carrier) - 1) } else { (-(1i128 << (carrier - 1)), (1i128 << (carrier - 1)) - 1) };
                for v in [cmin, cmin + 1, cmax, cmax - 1, hi + 1, lo - 1, hi + 2, -(1i128 << (w - 1)), (cmin / 2), (cmax / 2) + 1] {
                    if v >= cmin && v <= cmax && (v < lo || v > hi) {
                        out.push(Case { kind, carrier, w, v, any: true });
                    }
                }
                if w <= exhaustive_w {
                    let mut v = lo;
                    while v <= hi {
                        out.push(Case { kind, carrier, w, v, any: false });
                        v += 1;
                    }
                } else {
                    let mut vs = vec![lo, lo + 1, hi, hi - 1, 0, 1, -1, hi / 2, lo / 2, 0x5555_5555_5555_5555i128 & hi];
                    for b in 0..w {
                        vs.push(1i128 << b);
                        vs.push(-(1i128 << b));
                    }
                    for _ in 0..random_per {
                        vs.push(r.gen_range(lo..=hi));
                    }
                    for v in vs {
                        if v >= lo && v <= hi {
                            out.push(Case { kind, carrier, w, v, any: false });
                        }
                    }
                }
            }
        }
    }
    out
}

pub fn rec_bits(a: &Args, out: &mut Out) {
    let mut r = rng(a.seed(), 7);
    let exhaustive_w = a.num("exhaustive_w", 8) as usize;
    let random_per = a.num("random_per", 4) as usize;
    let mut cs = cases(&mut r, exhaustive_w, random_per);
    // shuffle so sessions mix kinds and widths
    for i in (1..cs.len()).rev() {
        let j = r.gen_range(0..=i);
        cs.swap(i, j);
    }
    let limit = a.num("max_cases", u64::MAX) as usize;
    cs.truncate(limit);
    let mut idx = 0;
    while idx < cs.len() {
        // one session: a buffer, a start offset, puts while they fit (+ overflow attempts), then read back
        let blen = *pick(&mut r, &[1usize, 2, 3, 4, 5, 8, 9, 12, 16, 24]);
        let bg = *pick(&mut r, &[0u8, 0xFF, 0xA5, 0x5A]);
        let mut buf: Vec<u8> = if r.gen_range(0..4) == 0 { (0..blen).map(|_| r.gen()).collect() } else { vec![bg; blen] };
        let start = r.gen_range(0..16.min(blen * 8));
        let buf0 = buf.clone();
        let mut done: Vec<Case> = vec![];
        let mut done_any: Option<Case> = None;
        out.emit(json!({"ev": "AsmInit", "buf": bytes_json(&buf), "off": start}));
        {
            let mut asm = Assembler::new(&mut buf, start);
            let mut steps = 0;
            while idx < cs.len() && steps < 24 {
                let c = cs[idx].clone();
                let fits = asm.offset() + c.w <= blen * 8;
                if !fits && !done.is_empty() && r.gen_range(0..3) > 0 {
                    break; // leave the case for the next session
                }
                let res = put_dyn(&mut asm, c.kind, c.carrier, c.v, c.w);
                let ok = match &res {
                    Ok(b) => J::from(*b),
                    Err(_) => J::from(false),
                };
                let panic = match &res {
                    Ok(_) => String::new(),
                    Err(p) => p.clone(),
                };
                if c.any && !panic.is_empty() {
                    // a panic on a value that does not fit its width is outside C07 (totality of encoding is C09):
                    // recorded as an observation, the session is abandoned
                    out.emit(json!({"ev": "PutAnyPanic", "kind": c.kind, "carrier": c.carrier, "w": c.w, "vbits": bits_of(c.v, c.carrier), "panic": panic}));
                } else if c.any {
                    // asm still borrows buf: the buffer content is logged by the AsmEnd of this session
                    out.emit(json!({"ev": "PutAny", "kind": c.kind, "carrier": c.carrier, "w": c.w,
                        "vbits": bits_of(c.v, c.carrier), "ok": ok, "panic": panic, "off_after": asm.offset()}));
                } else {
                    out.emit(json!({"ev": "Put", "kind": c.kind, "carrier": c.carrier, "w": c.w,
                        "vbits": bits_of(c.v, c.carrier), "ok": ok, "panic": panic, "off_after": asm.offset()}));
                }
                steps += 1;
                if c.any {
                    // an unrepresentable value ends the session (the buffer is compared at AsmEnd)
                    if res == Ok(true) { idx += 1; done_any = Some(c.clone()); } else if fits { idx += 1; }
                    break;
                }
                if res == Ok(true) {
                    done.push(c);
                    idx += 1;
                } else if fits {
                    idx += 1; // refused although it fits: recorded, TLC will object
                } else if blen * 8 - asm.offset() < 2 || r.gen() {
                    break;
                }
            }
        }
        let _ = &done_any;
        out.emit(json!({"ev": "AsmEnd", "buf": bytes_json(&buf)}));
        // read everything back (and past the end) from the buffer just written
        out.emit(json!({"ev": "ParInit", "buf": bytes_json(&buf), "off": start}));
        let mut par = Parser::new(&buf, start);
        let mut reads: Vec<Case> = done.clone();
        if let Some(c) = &done_any {
            reads.push(Case { kind: "u", carrier: 64, w: c.w, v: 0, any: false });
        }
        // one more read that may overflow
        reads.push(Case { kind: "u", carrier: 16, w: *pick(&mut r, &[1usize, 7, 9, 16]), v: 0, any: false });
        for c in reads {
            let res = parse_dyn(&mut par, c.kind, c.carrier, c.w);
            let (ok, vb, panic) = match &res {
                Ok(Some(v)) => (true, bits_of(*v, c.carrier), String::new()),
                Ok(None) => (false, json!([]), String::new()),
                Err(p) => (false, json!([]), p.clone()),
            };
            out.emit(json!({"ev": "Parse", "kind": c.kind, "carrier": c.carrier, "w": c.w, "ok": ok, "panic": panic, "vbits": vb, "off_after": par.offset()}));
        }
        let _ = buf0;
    }
}
