//! C19 probe: built against rtcm-rs with one chosen feature set (no default features, no std).
//! Reads a corpus of frames (one hex string per line) and prints, per frame, what this build decodes.
use rtcm_rs::prelude::*;

fn digest(s: &str) -> String {
    let mut a: u64 = 0xcbf29ce484222325;
    let mut b: u64 = 0x84222325cbf29ce4;
    for c in s.bytes() {
        a = (a ^ c as u64).wrapping_mul(0x100000001b3);
        b = (b.rotate_left(5) ^ c as u64).wrapping_mul(0x9E3779B97F4A7C15);
    }
    format!("{:016x}{:016x}", a, b)
}

fn main() {
    let path = std::env::args().nth(1).expect("corpus file");
    let text = std::fs::read_to_string(path).expect("read corpus");
    for line in text.lines() {
        let bytes: Vec<u8> = (0..line.len() / 2).map(|i| u8::from_str_radix(&line[2 * i..2 * i + 2], 16).unwrap()).collect();
        match next_msg_frame(&bytes) {
            (_, Some(mf)) => {
                let m = mf.get_message();
                let (class, n) = match &m {
                    Message::Empty => ("Empty", -1i64),
                    Message::Corrupt => ("Corrupt", -1),
                    Message::MsgNotSupported(t) => ("MsgNotSupported", t.message_number as i64),
                    _ => ("Typed", m.number().map(|x| x as i64).unwrap_or(-1)),
                };
                // fourth column (used by C01): does this build's encoder reproduce the frame from the decoded message?
                let rt = if class == "Typed" {
                    let mut b = MessageBuilder::new();
                    match b.build_message(&m) {
                        Ok(f) => {
                            if f == mf.frame_data() {
                                "same"
                            } else {
                                "diff"
                            }
                        }
                        Err(_) => "err",
                    }
                } else {
                    "-"
                };
                println!("{} {} {} {}", class, n, digest(&format!("{:?}", m)), rt);
            }
            _ => println!("NoFrame -1 - -"),
        }
    }
}
