#!/bin/bash
# thorough_sweep.sh [ids...]: runs the thorough tier of the given checks (default: all) on the unchanged tree in a scratch copy
TV=/tmp/mut/thorverif
mkdir -p $TV && rsync -a --delete --exclude work --exclude .git --exclude replays --exclude evidence /verif/ $TV/
cd $TV
IDS="$@"; [ -z "$IDS" ] && IDS="C14 C15 C18 C20 C17 C16 C13 C03 C10 C05 C06 C12 C11 C07 C08 C04 C01 C09 C02"
for c in $IDS; do
  S=$(date +%s)
  OUT=$(nice -n 5 bin/check $c --tier thorough 2>&1); RC=$?
  echo "thorough $c rc=$RC $(( $(date +%s) - S ))s $(echo "$OUT" | grep -E '^VIOLATION|TOOL ERROR' | head -2 | cut -c1-300 | tr '\n' ' ')" >> /tmp/mut/thorough_sweep.txt
done
echo "thorough sweep done" >> /tmp/mut/thorough_sweep.txt
