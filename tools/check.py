#!/usr/bin/env python3
"""Entry point: check <ID> [--tier quick|thorough] [--replay FILE] [--selftest]"""
import argparse, importlib, json, os, sys, traceback
sys.path.insert(0, os.path.dirname(os.path.abspath(__file__)))
import common
from common import Check, ToolError, log


def main():
    ap = argparse.ArgumentParser()
    ap.add_argument("pid")
    ap.add_argument("--tier", default=os.environ.get("VERIF_TIER", "quick"), choices=["quick", "thorough"])
    ap.add_argument("--replay")
    ap.add_argument("--selftest", action="store_true")
    a = ap.parse_args()
    try:
        seed = int(os.environ.get("VERIF_SEED", "1"))
    except ValueError:
        seed = 1
    pid = a.pid.upper()
    try:
        mod = importlib.import_module("props." + pid.lower())
    except ModuleNotFoundError:
        log("no check for", pid)
        sys.exit(2)
    chk = Check(pid, a.tier, seed)
    try:
        if a.replay:
            rc = mod.replay(chk, a.replay)
        elif a.selftest:
            rc = mod.selftest(chk)
        else:
            rc = mod.run(chk)
    except ToolError as e:
        log("TOOL ERROR (not a verdict):", str(e)[:6000])
        sys.exit(2)
    except Exception:
        traceback.print_exc()
        sys.exit(2)
    sys.exit(rc)


if __name__ == "__main__":
    main()
