#!/bin/bash
# regress_seeded.sh <check ids...>: re-runs, in a second sandbox copy, every seeded change whose recorded first catching check
# is one of the given ids, against that check as committed now.  Output: /tmp/mut/regress.txt (one line per change)
set -u
ER=/tmp/mut/regrepo; EV=/tmp/mut/regverif
[ -d $ER ] || git -C /repo worktree add -q --detach $ER HEAD
git -C $ER checkout -q --detach $(git -C /repo rev-parse HEAD) 2>/dev/null; git -C $ER checkout -q -- .
mkdir -p $EV && rsync -a --delete --exclude work --exclude .git --exclude replays --exclude evidence /verif/ $EV/
sed -i "s#path = \"/repo\"#path = \"$ER\"#" $EV/harness/Cargo.toml $EV/probe/Cargo.toml
cp -n /repo/Cargo.lock $ER/Cargo.lock 2>/dev/null
for d in /verif/seeded/*/; do
  id=$(basename $d)
  c=$(python3 -c "import json;m=json.load(open('$d/meta.json'));print(m['checks_that_caught_it'][0])")
  case " $* " in *" $c "*) ;; *) continue;; esac
  git -C $ER checkout -q -- . ; git -C $ER clean -fdq src
  if git -C $ER apply $d/patch.diff 2>/dev/null; then
    OUT=$(cd $EV && VERIF_REPO=$ER bin/check $c 2>&1); RC=$?
    echo "$id $c rc=$RC $(echo "$OUT" | grep -c '^VIOLATION') $(echo "$OUT" | grep -E 'TOOL ERROR' | head -1 | cut -c1-120)" >> /tmp/mut/regress.txt
  else
    echo "$id $c patch-does-not-apply" >> /tmp/mut/regress.txt
  fi
done
git -C $ER checkout -q -- . ; git -C $ER clean -fdq src
echo "regress done $*" >> /tmp/mut/regress.txt
