#!/usr/bin/env python3
"""Regenerates /verif/MANIFEST.json from the table below (one source of truth for the interface)."""
import json, os
V = os.path.dirname(os.path.dirname(os.path.abspath(__file__)))
NOTE = ("Exhaustive only in small scope (toy profile / toy capacities); full-size coverage is sampled, seeded and judged by the specification. "
        "Trusted: TLC, CommunityModules Java overrides (Bitwise, Json, IOUtils), the Rust harness's recording code and the cfg(rtcm_rs_verif) hooks, rustc/cargo.")
BUILT = {
 "C03": ("model_checking", "TLC model-checks the frame acceptance predicate exhaustively on a toy frame profile (partition of outcomes, stability under suffixes) and evaluates CRC-24Q / real-profile frame theorems on the real constants; every MessageFrame::new call recorded from the real library (random slices, valid frames of all types and lengths, near-misses) is validated by TLC against the same specification, with the spec's own bitwise CRC as oracle.", "§4 C03", "TLA+ spec + TLC model checking + TLC trace validation of recorded MessageFrame::new calls"),
 "C04": ("model_checking", "TLC evaluates, on the real generator polynomial, the theorems that make every 1-bit, 2-bit, odd-weight and <=24-bit-burst error detectable for all frame lengths; conformance: corruption campaigns against the real MessageFrame::new/next_msg_frame are recorded as lossless observations (sets of accepted/delivered corruptions, campaign sizes) and validated by TLC.", "§4 C04", "TLA+ CRC theorems checked by TLC + TLC-validated corruption campaigns on the real code"),
 "C05": ("model_checking", "The loop of next_msg_frame is specified as a step machine and model-checked (exhaustively over all toy buffers) to refine the declarative 'earliest live candidate' result, incl. dead bytes, termination and the iterator; every recorded next_msg_frame call and MsgFrameIter run on full-size buffers from an adversarial piece grammar is validated by TLC against that declarative result computed with the spec's CRC.", "§4 C05", "TLA+ scanner step machine refinement (TLC) + TLC trace validation of recorded scanner/iterator calls"),
 "C06": ("model_checking", "The chunked-feeding protocol is a TLA+ state machine with Feed and ScanStep as independent actions; TLC explores all toy streams x all chunkings x all interleavings for ChunkInv/PrefixInv and liveness; recorded streaming sessions around the real scanner (1-byte, tiny, random and lazy chunkings) are validated event by event as behaviours of that machine and their final state against WholeScan(stream).", "§4 C06", "TLA+ Stream spec model-checked by TLC + TLC trace validation of recorded streaming sessions"),
 "C07": ("model_checking", "BitIO specifies put/parse declaratively and as a literal transcription of the mask/shift loops; TLC checks loop = declaration, read-after-write, the frame condition and the overflow branch exhaustively in small scope; sessions on the real Assembler/Parser (all carriers, widths, alignments; all values up to 8/12 bits) are validated step by step by TLC, which carries buffer and cursor.", "§4 C07", "TLA+ BitIO spec (TLC) + TLC trace validation of Assembler/Parser sessions via cfg hook"),
 "C09": ("model_checking", "Builder is a TLA+ state machine (Begin/Put/Abort/Finish over the byte-exact frame buffer); TLC checks well-formedness of every emitted frame over all toy histories; build_message sessions recorded with the put hook in both build profiles (release, release+overflow-checks) over normal, extreme, mutated and inconsistent messages of all types are validated put by put, the returned frame must equal the spec's and carry the variant's number; a panic is a rejected trace.", "§4 C09", "TLA+ Builder spec (TLC) + TLC trace validation of hooked build sessions in two build profiles"),
 "C12": ("model_checking", "Builder models the buffer byte for byte so residue is explicit; TLC proves history independence over all toy histories and refutes three defective prologues; long recorded histories on one real MessageBuilder are validated with the spec carrying buffer and has_run across the whole history, each frame must equal the spec's prediction and a fresh builder's frame.", "§4 C12", "TLA+ Builder histories model-checked by TLC + TLC trace validation of long builder histories"),
 "C13": ("model_checking", "Stability of every observable (incl. message number) under arbitrary suffixes is model-checked on the toy profile and on real-profile frames; the 'number from slice length' variant is shown to violate it; recorded (frame, frame+suffix) observation pairs from the real library, incl. decoded message digests, are validated by TLC.", "§4 C13", "TLA+ stability lemma (TLC) + TLC trace validation of frame/suffix observation pairs"),
}
props = [json.loads(l) for l in open(os.path.join(V, "properties.jsonl"))]
checks = []
for pid, (cat, text, ref, tech) in BUILT.items():
    checks.append({"property_id": pid, "quick_cmd": "bin/check %s --tier quick" % pid, "thorough_cmd": "bin/check %s --tier thorough" % pid,
                   "evidence_file": "/verif/evidence/%s.json" % pid, "replay_cmd_template": "bin/check %s --replay {path}" % pid,
                   "engine": "tlc+rtcm_conf", "level_claimed": {"category": cat, "text": text, "design_ref": ref}, "level_note": NOTE, "technique": tech})
na = [{"property_id": p["id"], "reason": "check not built yet in this round (planned per DESIGN.md §9); no claim is made until its check exists"}
      for p in props if p["id"] not in BUILT]
hooks_commit = os.popen("git -C /repo log --format=%h --grep='verification hooks' | tail -1").read().strip()
m = {"version": 1,
     "setup_cmd": "cd /verif/harness && cp -n /repo/Cargo.lock Cargo.lock; cargo build --offline --release -q && cargo build --offline --profile relchk -q",
     "hooks": {"guard": "rtcm_rs_verif", "enable": "RUSTFLAGS='--cfg rtcm_rs_verif' (set in /verif/harness/.cargo/config.toml; the harness depends on /repo by path, so every check rebuilds from /repo's working tree)",
               "baseline_off_cmd": "cd /repo && cargo test --workspace --no-fail-fast --offline", "source_commits": [hooks_commit], "add_only": True},
     "engines": [{"name": "tlc+rtcm_conf", "path": "/verif/tools/check.py", "serves_properties": list(BUILT),
                  "kind_free_text": "TLA+ specification in /verif/spec checked by TLC (model checking, behaviour generation, trace validation) bound to the real library by the Rust harness /verif/harness (records NDJSON traces, replays spec-generated behaviours)"}],
     "checks": checks, "not_applicable": na,
     "notes": "exit 0 = held on everything explored; exit 1 + VIOLATION line = violation; exit 2 = tool error/timeout (never a verdict). Genuine defects found so far and repaired with fix: commits are listed in /verif/known_findings.json."}
json.dump(m, open(os.path.join(V, "MANIFEST.json"), "w"), indent=1)
print("MANIFEST.json:", len(checks), "checks,", len(na), "not applicable")
