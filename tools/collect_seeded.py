#!/usr/bin/env python3
"""Copies confirmed breaking changes from the sub-agents' scratch output (/tmp/mut/out-<ID>/m<i>) into
/verif/seeded/<ID>-m<i>/ (patch.diff, demonstration, meta.json with what was run and which checks caught it)
and prints the detection table for DESIGN.md."""
import json, os, re, shutil, glob
SRC = "/tmp/mut"
DST = "/verif/seeded"
rows = []
for d in sorted(glob.glob(SRC + "/out-C*/m*")):
    if not os.path.isdir(d) or not os.path.exists(d + "/eval.txt") or not os.path.exists(d + "/patch.diff"):
        continue
    ev = open(d + "/eval.txt").read()
    mm = re.search(r"out-(C\d+)([bcd]?)/", d)
    pid = mm.group(1)
    name = (mm.group(2) + "-" if mm.group(2) else "") + os.path.basename(d)      # later waves: <ID>-b-m<i>, <ID>-c-m<i>
    confirmed = ("demo_unchanged: pass" in ev and "demo_changed: fail" in ev and re.search(r"suite_changed: passed \d+ failed 0", ev))
    checks = re.findall(r"check (C\d+) rc=(\d+) (\d+) violation", ev)
    if not confirmed or not checks:
        continue
    out = os.path.join(DST, "%s-%s" % (pid, name))
    os.makedirs(out, exist_ok=True)
    shutil.copy(d + "/patch.diff", out + "/patch.diff")
    for demo in ("demo.rs", "demo.sh"):
        if os.path.exists(d + "/" + demo):
            shutil.copy(d + "/" + demo, out + "/" + demo)
    meta = {}
    try:
        meta = json.load(open(d + "/meta.json"))
    except Exception:
        pass
    caught = [c for c, rc, n in checks if rc == "1"]
    missed = [c for c, rc, n in checks if rc == "0"]
    err = [c for c, rc, n in checks if rc not in ("0", "1")]
    meta_out = {"property": pid, "what_changed": meta.get("what_changed", ""), "needs_to_manifest": meta.get("needs_to_manifest", ""),
                "confirmed_in_scratch_worktree": {"demo_unchanged": "pass", "demo_changed": "fail", "existing_suite_with_change": re.search(r"suite_changed: (.*)", ev).group(1)},
                "ran": ["tools/mutant_eval.sh %s <worktree> %s" % (d, " ".join(c for c, _, _ in checks))],
                "checks_that_caught_it": caught, "checks_run_without_alarm": missed, "tool_errors": err}
    json.dump(meta_out, open(out + "/meta.json", "w"), indent=1)
    shutil.copy(d + "/eval.txt", out + "/eval.txt")
    rows.append((pid, name, (meta.get("what_changed", "") or "")[:110].replace("|", "/").replace("\n", " "), caught, missed, err))
print("| change | what it does | caught by | ran clean |")
print("|---|---|---|---|")
for pid, name, what, caught, missed, err in rows:
    print("| %s-%s | %s | %s | %s |" % (pid, name, what, ", ".join(caught) or "**none**", ", ".join(missed + ["(tool error: %s)" % e for e in err]) or "-"))
