"""C04 -- corrupted frames are never delivered."""
from common import *
from props.framelib import *

RULE = ("MC (real CRC-24Q polynomial, evaluated by TLC): T1 x^k mod g not in {0,1} for all 0<k<8232 (all 1- and 2-bit errors in any "
        "frame length), T2 even number of terms ((x+1)|g: all odd-weight errors), T3 g(0)=1, deg 24 + exhaustive burst cross-check, "
        "linearity; TV: corruption campaigns on the real MessageFrame::new / next_msg_frame: per sampled valid frame every single-bit "
        "flip, all pairs (frames <= 16 bytes) or sampled pairs, sampled odd weights 3..31, bursts of every length 2..24 at every start; "
        "each corruption is applied in place to a buffer in which the intact frame was accepted just before (state carried between calls), and to a copy placed after / before the intact frame in one buffer walked by MsgFrameIter (only intact bytes may be delivered); "
        "the event records the sets of corruptions that were accepted / delivered, TLC requires both empty and the tried-count to "
        "equal the class size for that frame length; evaluations counts corrupted frames tried; non-trivial = campaign (frame, class); "
        "distinct = distinct (frame, class)")


def sig(ev, d):
    return "Corrupt class=%s accepted=%d delivered=%d tried_ok=%s" % (ev.get("class"), min(len(ev.get("accepted", [])), 1),
                                                                    min(len(ev.get("delivered", [])), 1), "?")


def run(chk):
    q = chk.quick
    chk.add_mc(mc("MC_Crc", "MC_Crc.cfg" if q else "MC_Crc_thorough.cfg", workers=2, timeout=3000))
    chk.add_mc(mc("MC_Frame", "MC_Frame.cfg", workers=8))
    t = record("corrupt", chk.path("corrupt.ndjson"), n=150 if q else 3000, pairs=2000 if q else 20000,
               interiors=1 if q else 3, seed=chk.seed, timeout=3000)
    r = tv("Trace_Frame", "Trace_Frame.cfg", t, shards=10, tag="C04")
    chk.add_tv("corrupt", r)
    report_rejects(chk, r, sig,
                   lambda ev, d: "a corrupted frame (class %s) was accepted/delivered, or the campaign size is off: accepted=%s delivered=%s" % (
                       ev.get("class"), ev.get("accepted")[:3], ev.get("delivered")[:3]),
                   tool_error_if=lambda ev, d: d.get("pre") is False)
    tried = sum(o["tried"] for ln, o in r["lines"])
    chk.cov["evaluations"] = tried
    chk.cov["distinct_nontrivial"] = len(set(ln for ln, o in r["lines"]))
    classes = {}
    for ln, o in r["lines"]:
        classes[o["class"]] = classes.get(o["class"], 0) + o["tried"]
    chk.assumptions += ["corruptions are restricted to reserved header bits, payload and checksum (never preamble or length bits), as the property states",
                        "'delivered' means next_msg_frame returned a frame that is the whole corrupted buffer"]
    return chk.finish("model_checking", RULE, extra={"corruptions_by_class": classes})


def replay(chk, path):
    return replay_session(chk, path, "Trace_Frame", "Trace_Frame.cfg")


def selftest(chk):
    t = record("corrupt", chk.path("st.ndjson"), n=3, seed=chk.seed)
    def mut(o):
        if o["class"] == "single":
            o["accepted"] = [[30]]
            return True
        return False
    corrupt_one_field(t, chk.path("st_bad.ndjson"), mut)
    r = tv("Trace_Frame", "Trace_Frame.cfg", chk.path("st_bad.ndjson"), shards=1, tag="C04-st")
    if len(r["rejects"]) != 1:
        raise ToolError("selftest: corrupted trace was not rejected exactly once")
    log("selftest ok")
    return 0
