"""C14 -- decode outcome is classified by message number, exhaustively."""
from common import *
from props.framelib import *
from props.declib import *

RULE = ("Exhaustive over the message number: for every n in 0..4095 seven CRC-valid frames (2, 5, 40, 300, 1023-byte payloads; zeros, ones, sparse, "
        "random) and for payload lengths 0 and 1 every first-byte value, alone and followed by another frame inside a longer buffer; each "
        "outcome must lie in Dispatch!Class(dlen, n, Supported) with Supported = the message features of Cargo.toml (both inclusions follow: an "
        "unsupported n must give MsgNotSupported(n), a supported one a typed variant of that very number or Corrupt); reverse direction: every typed "
        "variant decoded from generated frames reports number() = digits of its variant name = first 12 payload bits; non-trivial = all; "
        "distinct = distinct (n, payload shape)")


def run(chk):
    feats = features_from_cargo()
    chk.add_mc(mc("MC_Frame", "MC_Frame.cfg", workers=8))
    t = record("classify", chk.path("cls.ndjson"), seed=chk.seed)
    with_config(t, feats)
    r = tv("Trace_Decode", "Trace_Decode.cfg", t, reset_events=("Decode",), prefix_events=("Config",), shards=12, tag="C14")
    chk.add_tv("classify", r)
    # the same exhaustive sweep over the 4096 numbers in the overflow-checks / debug-assertions profile
    t2 = record("classify", chk.path("cls-relchk.ndjson"), profile="relchk", seed=chk.seed + 17)
    with_config(t2, feats)
    r2 = tv("Trace_Decode", "Trace_Decode.cfg", t2, reset_events=("Decode",), prefix_events=("Config",), shards=12, tag="C14-relchk")
    chk.add_tv("classify[relchk]", r2)
    for rj in r["rejects"] + r2["rejects"]:
        if recorder_level_reject(chk, rj):
            continue
        d = rj["diag"]
        try:
            d = json.loads(d)
        except Exception:
            d = {"raw": d}
        ev = rj["session"][0]
        sup = d.get("number_in_frame") in feats
        chk.violation("Classify dlen%s supported=%s got=%s" % ("<2" if d.get("dlen", 9) < 2 else ">=2", sup, ev.get("out")),
                      "decode outcome outside Dispatch!Class: n=%s dlen=%s got %s (variant %s, carried %s)" % (d.get("number_in_frame"), d.get("dlen"), ev.get("out"), ev.get("variant"), ev.get("carried")),
                      {"session": rj["session"], "spec_diagnosis": d})
    seen_n = set()
    typed = set()
    for ln, o in r["lines"]:
        if o["ev"] == "Decode":
            fr = o["frame"]
            if len(fr) >= 8:
                seen_n.add(fr[3] * 16 + fr[4] // 16)
            if o["out"] == "Typed":
                typed.add(o["variant_number"])
    if len(seen_n) != 4096:
        raise ToolError("not all 4096 message numbers were presented (%d)" % len(seen_n))
    if not typed:
        chk.vacuity("vacuity: no typed variant observed at all")
    # informational: supported numbers whose generated frames never decoded to the typed variant in this run
    never_typed = sorted(set(feats) - typed)
    chk.cov["distinct_nontrivial"] = sum(1 for ln, o in r["lines"] if o["ev"] == "Decode")
    return chk.finish("exploration", RULE, exhaustive=True, extra={"numbers_presented": len(seen_n), "typed_variants_observed": len(typed), "supported_but_never_typed_in_this_run": never_typed})


def replay(chk, path):
    return replay_session(chk, path, "Trace_Decode", "Trace_Decode.cfg", reset_events=("Decode",),
                          prefix={"ev": "Config", "features": features_from_cargo()}, prefix_events=("Config",))


def selftest(chk):
    log("covered by C02 selftest (same trace spec)")
    return 0
