"""C11 -- quantisation picks the nearest representable value."""
from common import *
from props.framelib import *

RULE = ("MC: toy fields with the float pipeline as a bounded perturbation: an input t/16 of the way from k to k+1 goes to a neighbour, the nearer one "
        "outside a slack band; the truncating and +0.5-for-both-signs quantisers are refuted; TV: for every scaled (float-typed) field, inputs "
        "constructed from grid coordinates x = (k + t/16)*res + bias in the field's own float type (res/bias copied verbatim from dfs.rs), "
        "k from {range ends, 0, +-1, +-2, halves, quarters, log-uniform seeded magnitudes}, t in {0, 1/16, 1/4, 7/16, 1/2 -+ 2^-14, 1/2, 9/16, 3/4, 15/16}; TLC checks kout in {k,k+1}, the "
        "side of the half step outside the slack band sigma=2^(bitlen+5-mantissa), |decode(encode(x))-x| <= res/2 + sigma*res, and monotonicity "
        "of kout along each field's sorted probe sequence; the hand-written 1059/1065/1230 quantisers are probed through one-entry messages; "
        "non-trivial = probe whose slack band is narrower than its distance from the half step; distinct = distinct (field, k, t)")


def sig(ev, d):
    side = "k" if ev.get("kout") == ev.get("kbits") else "other"
    kind = "bias-list" if str(ev.get("id", "")).startswith("bias") else "df"
    return "Probe %s t=%s/2^%s kout=%s enc_err=%s" % (kind, ev.get("tnum"), ev.get("tden"), side, ev.get("enc_err"))


def run(chk):
    q = chk.quick
    run_extractor()
    chk.add_mc(mc("MC_Quant", "MC_Quant.cfg", workers=4))
    chk.add_neg(mc("MC_Quant", "NEG_C08_trunc.cfg", expect_fail=True))
    chk.add_neg(mc("MC_Quant", "NEG_C11_roundpos.cfg", expect_fail=True))
    t = record("probes", chk.path("probes.ndjson"), seed=chk.seed, per_field=40 if q else 500, timeout=3000)
    r = tv("Trace_Probe", "Trace_Probe.cfg", t, reset_events=("ProbeBegin",), shards=12, tag="C11")
    chk.add_tv("probes", r)
    report_rejects(chk, r, sig, lambda ev, d: "quantiser probe violates Nearest/monotone for field %s (t=%s/16)" % (ev.get("id"), (ev.get("tnum"), ev.get("tden"))))
    fields = set()
    n = 0
    for ln, o in r["lines"]:
        if o["ev"] == "ProbeBegin":
            fields.add(o["id"])
        elif (o["tnum"], o["tden"]) != (8, 4):
            n += 1
    if len(fields) < 150:
        chk.vacuity("vacuity: only %d fields probed" % len(fields))
    chk.cov["distinct_nontrivial"] = n
    chk.assumptions += ["a wrong neighbour chosen inside the slack band around the half step is not a violation of C11 as stated and is not detectable",
                        "probe inputs are computed in the field's float type by the harness (construction, not judgement)"]
    return chk.finish("exploration", RULE, extra={"fields_probed": len(fields)})


def replay(chk, path):
    run_extractor()
    return replay_session(chk, path, "Trace_Probe", "Trace_Probe.cfg", reset_events=("ProbeBegin",))


def selftest(chk):
    run_extractor()
    t = record("probes", chk.path("st.ndjson"), seed=chk.seed, per_field=2)
    def mut(o):
        if o["ev"] == "Probe" and o["tnum"] == 1 and o["tden"] == 4 and o["kout"] == o["kbits"] and not all(o["kbits"]) and sum(o["kbits"][:40]) == 0:
            # pretend the encoder rounded up an input just above a grid point
            k = o["kbits"]
            i = max(j for j in range(64) if k[j] == 0)
            o["kout"] = k[:i] + [1] + [0] * (63 - i)
            return True
        return False
    corrupt_one_field(t, chk.path("st_bad.ndjson"), mut)
    r = tv("Trace_Probe", "Trace_Probe.cfg", chk.path("st_bad.ndjson"), reset_events=("ProbeBegin",), shards=4, tag="C11-st")
    if len(r["rejects"]) < 1:
        raise ToolError("selftest: corrupted trace was not rejected")
    log("selftest ok")
    return 0
