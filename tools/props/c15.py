"""C15 -- lists of every admissible length survive; counts and capacities agree."""
from common import *
from props.framelib import *

RULE = ("MC: on the real extracted layouts TLC checks that every list at capacity fits the 1023-byte payload and every count field can express its "
        "capacity; a toy list codec round-trips for every length and answers corrupt for a count above capacity / a body shorter than the count implies; "
        "TV (exhaustive in n): for every list-bearing message type (legacy observables, network RTK, SSR, 1013, 1302, descriptor strings) and EVERY n in "
        "0..=capacity a message with n distinct elements (taken from decoded generated frames) is built and decoded: build ok, frame <= 1029 bytes, count "
        "field on the wire (position from Layouts) = n, decode returns n elements with the same digests in the same order; hostile frames: the full-length "
        "frame with its count field set to every value above capacity, and cut after every byte (re-framed): must decode to Corrupt whenever the count "
        "exceeds the capacity or the body is shorter than the count implies; frames with arbitrary element bits (zeros, ones, random) under an admissible count must decode to a typed message with exactly that many elements; both build profiles; non-trivial = all; distinct = distinct (type, list, n) and hostile frames")


def sig(ev, d):
    kind = (d.get("list") or {}).get("kind")
    if ev["ev"] == "ListRt":
        return "ListRt kind=%s out=%s dec=%s n_ok=%s count_ok=%s order_ok=%s" % (kind, ev.get("out", "")[:30], ev.get("dec"),
                                                                 ev.get("dec_n") == ev.get("n"), d.get("count_on_wire") in (ev.get("n"), -1), ev.get("tags_in") == ev.get("tags_out"))
    return "ListHostile kind=%s how=%s out=%s" % (kind, ev.get("how"), ev.get("out", "")[:30])


def run(chk):
    run_extractor()
    chk.add_mc(mc("MC_Lists", "MC_Lists.cfg", workers=1))
    t = record("lists", chk.path("lists.ndjson"), seed=chk.seed, layouts=os.path.join(WORK, "gen", "layouts.json"), timeout=3000)
    r = tv("Trace_Lists", "Trace_Lists.cfg", t, shards=12, tag="C15")
    chk.add_tv("lists", r)
    report_rejects(chk, r, sig, lambda ev, d: "list %s of message %s: count / capacity / order violated (%s)" % (ev.get("path"), ev.get("number"), ev["ev"]))
    t2 = record("lists", chk.path("lists-relchk.ndjson"), profile="relchk", seed=chk.seed + 3, layouts=os.path.join(WORK, "gen", "layouts.json"), timeout=3000)
    r2 = tv("Trace_Lists", "Trace_Lists.cfg", t2, shards=12, tag="C15-relchk")
    chk.add_tv("lists[relchk]", r2)
    report_rejects(chk, r2, lambda ev, d: "[overflow-checks] " + sig(ev, d),
                   lambda ev, d: "[overflow-checks] list %s of message %s: count / capacity / order violated (%s)" % (ev.get("path"), ev.get("number"), ev["ev"]))
    lists = set()
    full = 0
    for ln, o in r["lines"]:
        if o["ev"] == "ListRt":
            lists.add((o["number"], o["path"]))
    if len(lists) < 40:
        chk.vacuity("vacuity: only %d lists exercised" % len(lists))
    chk.cov["distinct_nontrivial"] = len(set(ln for ln, o in r["lines"]))
    chk.assumptions += ["count-field positions, widths, capacities and element widths are extracted from the macros in src/msg (structure knowledge, cross-checked by pinned facts: 1001 count at payload bit 55 width 5, 1057 block 135 bits, MSM header 73 bits)",
                        "nested lists of 1302 (database links) are exercised only through their parent list here"]
    return chk.finish("model_checking", RULE, exhaustive=True, extra={"lists": len(lists)})


def replay(chk, path):
    run_extractor()
    return replay_session(chk, path, "Trace_Lists", "Trace_Lists.cfg")


def selftest(chk):
    run_extractor()
    t = record("lists", chk.path("st.ndjson"), seed=chk.seed, layouts=os.path.join(WORK, "gen", "layouts.json"))
    def mut(o):
        if o["ev"] == "ListRt" and o.get("n", 0) >= 3:
            o["tags_out"][0], o["tags_out"][1] = o["tags_out"][1], o["tags_out"][0]
            return o["tags_out"][0] != o["tags_out"][1]
        return False
    corrupt_one_field(t, chk.path("st_bad.ndjson"), mut)
    r = tv("Trace_Lists", "Trace_Lists.cfg", chk.path("st_bad.ndjson"), shards=4, tag="C15-st")
    if len(r["rejects"]) != 1:
        raise ToolError("selftest: corrupted trace was not rejected exactly once")
    log("selftest ok")
    return 0
