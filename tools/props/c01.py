"""C01 -- encode/decode normal form: what the encoder writes, the decoder reads back."""
from common import *
from props.framelib import *

RULE = ("TV: sessions A (message -> frame -> message -> frame -> message) over all supported types from the value-tree generator: normal form, "
        "single-leaf extremes, random mutants (off-grid reals, boundary / out-of-range ints, NaN/inf, options, list lengths / order / duplicates, "
        "text), MSM / bias-list edge inputs; sessions B (hostile CRC-valid frame -> message -> frame -> message) from the C02 generators; TLC "
        "judges: same typed variant, re-encoding accepted, twice-decoded equal (digest + PartialEq), byte-identical re-encoding whenever the "
        "spec's Clean(m0) holds (no duplicate satellite / (satellite, signal) keys, bias-list signals in the SSR table of SigTables), B: fixed "
        "point up to stable regrouping by satellite for 1059/1065; field level (both build profiles): for every real-valued data field and the wrap-around aliases of zero / the range ends as input, the written pattern is reproduced by decoding and re-encoding it; MC: Builder and BitIO models of the two directions; "
        "non-trivial = session whose first build succeeded; distinct = distinct first frames")


def sig(ev, d):
    if ev["ev"] == "RtA":
        what = []
        if ev.get("d1", {}).get("out") != "Typed": what.append("d1=%s" % ev.get("d1", {}).get("out"))
        if ev.get("out2") != "ok": what.append("out2=%s" % str(ev.get("out2"))[:30])
        if ev.get("d1", {}).get("digest") != ev.get("d2", {}).get("digest"): what.append("d2!=d1")
        if ev.get("f1") != ev.get("f2"): what.append("f2!=f1(len %+d)" % (len(ev.get("f2", [])) - len(ev.get("f1", []))) if d.get("clean") else "")
        return "RtA %s clean=%s: %s" % (ev.get("variant") if ev.get("number") in (1059, 1065, 1230) else "msg", d.get("clean"), ",".join(w for w in what if w))
    return "RtB n=%s tag=%s: decode(encode(d)) != d" % (ev.get("number") if ev.get("number") in (1059, 1065, 1230) else "*", ev.get("tag"))


def nostd_events(chk):
    """Builds /verif/probe against the library with default features off (so #![no_std]) and all message features, runs it over a
    corpus of generator frames and writes one NoStdRt event per frame."""
    import shutil
    probe = os.path.join(VERIF, "probe")
    lock = os.path.join(probe, "Cargo.lock")
    if not os.path.exists(lock):
        shutil.copy(os.path.join(REPO, "Cargo.lock"), lock)
    t = record("corpus", chk.path("nostd-ref.ndjson"), seed=chk.seed + 3, per_type=3 if chk.quick else 40, hex=chk.path("nostd-corpus.hex"))
    ref = json.loads(open(t).read().splitlines()[0])
    tdir = os.path.join(WORK, "c01-nostd")
    env = {"CARGO_TARGET_DIR": tdir, "CARGO_NET_OFFLINE": "true", "RUSTFLAGS": ""}
    p = sh(["cargo", "build", "--offline", "-q", "--manifest-path", os.path.join(probe, "Cargo.toml"), "--features", "rtcm-rs/all_msgs"], env=env, check=False, timeout=1500)
    out = chk.path("nostd.ndjson")
    with open(out, "w") as f:
        if p.returncode != 0:
            f.write(json.dumps({"ev": "NoStdRt", "build": "fail", "number": -1, "class": "", "n": -1, "rt": "", "log": "\n".join(l for l in p.stdout.splitlines() if l.startswith("error"))[:600]}) + "\n")
            return out
        q = sh([os.path.join(tdir, "debug", "rtcm_probe"), chk.path("nostd-corpus.hex")], check=False, timeout=600)
        if q.returncode != 0:
            f.write(json.dumps({"ev": "NoStdRt", "build": "probe-crashed", "number": -1, "class": "", "n": -1, "rt": "", "log": q.stdout[-600:]}) + "\n")
            return out
        nums = [r[0] for r in ref["results"]]
        for i, ln in enumerate(q.stdout.splitlines()):
            parts = ln.split(" ")
            f.write(json.dumps({"ev": "NoStdRt", "build": "ok", "number": nums[i] if i < len(nums) else -1, "class": parts[0], "n": int(parts[1]), "rt": parts[3] if len(parts) > 3 else "?"}) + "\n")
    return out


def run(chk):
    q = chk.quick
    chk.add_mc(mc("MC_Builder", "MC_Builder.cfg", workers=4))
    chk.add_mc(mc("MC_BitIO", "MC_BitIO.cfg", workers=12, timeout=3000))
    t = record("roundtrip", chk.path("rt.ndjson"), seed=chk.seed, per_type=14 if q else 120, hostile=30 if q else 300, timeout=3000)
    r = tv("Trace_Roundtrip", "Trace_Roundtrip.cfg", t, shards=12, tag="C01")
    chk.add_tv("roundtrip", r)
    report_rejects(chk, r, sig, lambda ev, d: "round trip session violates the normal-form specification (%s %s)" % (ev["ev"], ev.get("variant", ev.get("number"))))
    # the same normal form at field level for inputs the message generators do not reach: every real-valued field fed the
    # wrap-around aliases of zero and of its range ends (k = +-m*2^(w-1), +-m*2^w, +-1; huge magnitudes)
    for profile in ("release", "relchk"):
        tn = record("fieldnf", chk.path("fieldnf-%s.ndjson" % profile), profile=profile)
        rn = tv("Trace_Fields", "Trace_Fields.cfg", tn, shards=12, tag="C01-nf-" + profile)
        chk.add_tv("fieldnf[%s]" % profile, rn)
        report_rejects(chk, rn, lambda ev, d: "[%s] FieldNf %s enc_err=%s rt_err=%s same=%s panic=%s" % (profile, ev.get("id"), ev.get("enc_err"), ev.get("rt_err"), ev.get("p") == ev.get("q"), bool(ev.get("panic"))),
                       lambda ev, d: "[%s] field %s: the pattern written for input k=%s (grid units) is not reproduced by decoding and re-encoding it: %s -> %s %s" % (
                           profile, ev.get("id"), ev.get("k"), ev.get("p"), ev.get("q"), ev.get("panic") or ""))
    # the same library built without std (C19's probe crate, all message features): decode + re-encode of generator frames
    nostd_events(chk)
    rs = tv("Trace_Roundtrip", "Trace_Roundtrip.cfg", chk.path("nostd.ndjson"), shards=4, tag="C01-nostd")
    chk.add_tv("no_std build", rs)
    report_rejects(chk, rs, lambda ev, d: "NoStdRt build=%s class=%s rt=%s" % (ev.get("build"), ev.get("class"), ev.get("rt")),
                   lambda ev, d: "no_std build: a frame of message %s written by the generator does not decode and re-encode to itself (%s, %s) %s" % (ev.get("number"), ev.get("class"), ev.get("rt"), ev.get("log", "")[:200]))
    firsts = set()
    a_ok = b_ok = a_clean_unknown = 0
    for ln, o in r["lines"]:
        if o["ev"] == "RtA" and o["out1"] == "ok":
            a_ok += 1
            firsts.add(hash(json.dumps(o["f1"])))
        elif o["ev"] == "RtB" and o.get("out") == "ok":
            b_ok += 1
            firsts.add(hash(json.dumps(o["h"])))
    if a_ok < 500 or b_ok < 500:
        chk.vacuity("vacuity: A=%d B=%d successful sessions" % (a_ok, b_ok))
    chk.cov["distinct_nontrivial"] = len(firsts)
    chk.assumptions += ["message equality is judged on a 128-bit digest of the canonical value tree plus the library's PartialEq flag",
                        "Clean is deliberately conservative (any duplicate key in any list switches the byte-equality demand off)"]
    return chk.finish("model_checking", RULE, extra={"sessions_A_encoded": a_ok, "sessions_B_reencoded": b_ok})


def replay(chk, path):
    rep = json.load(open(path)).get("replay", {})
    sess = rep.get("session") or []
    if sess and isinstance(sess[0], dict) and sess[0].get("ev") == "FieldNf":
        return replay_session(chk, path, "Trace_Fields", "Trace_Fields.cfg")
    return replay_session(chk, path, "Trace_Roundtrip", "Trace_Roundtrip.cfg")


def selftest(chk):
    t = record("roundtrip", chk.path("st.ndjson"), seed=chk.seed, per_type=1, hostile=1)
    def mut(o):
        if o["ev"] == "RtA" and o.get("out2") == "ok" and "d2" in o:
            o["eq12"] = False
            return True
        return False
    corrupt_one_field(t, chk.path("st_bad.ndjson"), mut)
    r = tv("Trace_Roundtrip", "Trace_Roundtrip.cfg", chk.path("st_bad.ndjson"), shards=2, tag="C01-st")
    if len(r["rejects"]) != 1:
        raise ToolError("selftest: corrupted trace was not rejected exactly once")
    log("selftest ok")
    return 0
