"""C07 -- bit-field packing is exact: right bits, right order, nothing else touched."""
from common import *
from props.framelib import *

RULE = ("MC: the transcribed per-byte mask/shift loops of Assembler::put / Parser::parse equal the declarative PutSpec/ParseSpec for "
        "kinds {u,s,sm}, every 8-bit carrier value, widths 1..8, every offset of a 3-byte buffer, 3 backgrounds (read-after-write, "
        "frame condition, overflow leaves state alone; small step machine explored separately); "
        "TV: sessions on the real Assembler/Parser through the cfg(rtcm_rs_verif) re-export: carriers 8/16/32/64, widths 1..carrier, "
        "all representable values for w <= 8 (quick) / 12 (thorough), boundary, one-hot and random values above, random offsets, "
        "buffer lengths 1..24 bytes, backgrounds {00,FF,A5,5A,random}, overflow attempts, and values that are NOT representable in the width (up to the ends of the carrier type: totality, cursor and frame condition only), in both build profiles; the spec carries buffer and cursor and "
        "checks every Put/Parse step, AsmEnd compares the whole buffer; non-trivial = put/parse of a field; distinct = distinct "
        "(kind, carrier, width, value) cases")


def sig(ev, d):
    return "BitIO session rejected at %s kind=%s carrier=%s w=%s" % (ev["ev"], ev.get("kind"), ev.get("carrier"), ev.get("w"))


def run(chk):
    q = chk.quick
    chk.add_mc(mc("MC_BitIO", "MC_BitIO.cfg" if q else "MC_BitIO_thorough.cfg", workers=12, timeout=3400))
    chk.add_mc(mc("MC_BitIO", "MC_BitIO_steps.cfg", workers=8))
    t = record("bits", chk.path("bits.ndjson"), seed=chk.seed, exhaustive_w=8 if q else 12, random_per=4 if q else 40)
    r = tv("Trace_BitIO", "Trace_BitIO.cfg", t, reset_events=("AsmInit",), shards=12, tag="C07")
    chk.add_tv("bits", r)
    report_rejects(chk, r, sig, lambda ev, d: "Assembler/Parser session is not a behaviour of BitIO (first bad event %s)" % json.dumps(ev)[:300])
    # the same sessions (smaller value enumeration) in the overflow-checked build profile: a put or parse must
    # not panic for any carrier value, representable or not
    t2 = record("bits", chk.path("bits-relchk.ndjson"), profile="relchk", seed=chk.seed + 1, exhaustive_w=6 if q else 9, random_per=2 if q else 10)
    r2 = tv("Trace_BitIO", "Trace_BitIO.cfg", t2, reset_events=("AsmInit",), shards=12, tag="C07-relchk")
    chk.add_tv("bits[relchk]", r2)
    report_rejects(chk, r2, lambda ev, d: "[overflow-checks] " + sig(ev, d), lambda ev, d: "[overflow-checks] Assembler/Parser session is not a behaviour of BitIO (first bad event %s)" % json.dumps(ev)[:300])
    cases = set()
    ovf = 0
    for ln, o in r["lines"]:
        if o["ev"] == "Put":
            if o["ok"] is True:
                cases.add((o["kind"], o["carrier"], o["w"], json.dumps(o["vbits"])))
            else:
                ovf += 1
    if ovf < 20:
        chk.vacuity("vacuity: only %d overflowing puts" % ovf)
    chk.cov["distinct_nontrivial"] = len(cases)
    return chk.finish("model_checking", RULE, extra={"overflow_attempts": ovf})


def replay(chk, path):
    return replay_session(chk, path, "Trace_BitIO", "Trace_BitIO.cfg", reset_events=("AsmInit",))


def selftest(chk):
    t = record("bits", chk.path("st.ndjson"), seed=chk.seed, exhaustive_w=3, random_per=0, max_cases=300)
    def mut(o):
        if o["ev"] == "AsmEnd" and any(o["buf"]):
            o["buf"][0] ^= 1
            return True
        return False
    corrupt_one_field(t, chk.path("st_bad.ndjson"), mut)
    r = tv("Trace_BitIO", "Trace_BitIO.cfg", chk.path("st_bad.ndjson"), reset_events=("AsmInit",), shards=1, tag="C07-st")
    if len(r["rejects"]) != 1:
        raise ToolError("selftest: corrupted trace was not rejected exactly once")
    log("selftest ok")
    return 0
