"""C08 -- every data field is lossless on its grid and has exactly one 'absent' pattern."""
from common import *
from props.framelib import *

RULE = ("MC: toy fields (kinds u/s/sm, widths 1..5, optional or not) with the float pipeline modelled as a bounded perturbation: Enc(Dec(p)) = Norm(p) "
        "under every perturbation, one absent pattern; the truncating and the +0.5-for-both-signs variants are refuted; on the real (extracted) "
        "field table TLC checks the floating-point error budget Safe(f) or f.w <= sweep limit, and the shape of every inv pattern; "
        "TV: through the cfg(rtcm_rs_verif) re-export, for each of the ~310 df! fields decode->encode of raw patterns: range observations of "
        "EXHAUSTIVE sweeps for w <= 24 (quick) / w <= 32 (thorough) [sets bad / absent / nonfinite, chunks must tile 0..2^w], strided sweeps above, "
        "raw events on boundaries, one-hot, inv+-1 and seeded patterns for every field incl. the 34-38-bit ones; the three hand-written bias "
        "codecs are swept through one-entry 1059/1065/1230 messages; evaluations counts decode->encode round trips; non-trivial = (field, chunk) "
        "observation or raw event; distinct = distinct (field, pattern range)")


def sig(ev, d):
    if ev["ev"] == "FieldRt":
        return "FieldRt %s: absent=%s finite=%s err=%s q%sp" % (ev["id"], ev["absent"], ev["finite"], ev["err"], "=" if ev["q"] == ev["p"] else "!=")
    if ev["ev"] == "FieldSweep":
        return "FieldSweep %s: bad=%d absent=%d nonfinite=%d" % (ev["id"], len(ev["bad"]), len(ev["absent"]), len(ev["nonfinite"]))
    return "%s %s rejected" % (ev["ev"], ev.get("id", ev.get("number")))


def run(chk):
    q = chk.quick
    run_extractor()
    chk.add_mc(mc("MC_Quant", "MC_Quant.cfg", workers=4))
    chk.add_neg(mc("MC_Quant", "NEG_C08_trunc.cfg", expect_fail=True))
    chk.add_neg(mc("MC_Quant", "NEG_C11_roundpos.cfg", expect_fail=True))
    chk.add_mc(mc("MC_Fields", "MC_Fields.cfg" if q else "MC_Fields_thorough.cfg", workers=1))
    t = record("fields", chk.path("fields.ndjson"), seed=chk.seed, full_w=24 if q else 32, sample_bits=22 if q else 26,
               samples=200 if q else 5000, threads=14, timeout=7000)
    r = tv("Trace_Fields", "Trace_Fields.cfg", t, reset_events=("FieldBegin",), shards=12, tag="C08")
    chk.add_tv("fields", r)
    report_rejects(chk, r, sig, lambda ev, d: "field %s: decode->encode of a bit pattern violates Quant (event %s)" % (ev.get("id", ev.get("number")), json.dumps(ev)[:300]))
    # the per-pattern events (boundaries, one-hot, inv neighbours, seeded) once more in the overflow-checks profile: "every
    # other pattern decodes to a present, finite value" - a decode that panics there decodes to nothing
    t2 = record("fields", chk.path("fields-relchk.ndjson"), profile="relchk", seed=chk.seed + 9, sweeps=0, samples=200 if q else 3000, timeout=7000)
    r2 = tv("Trace_Fields", "Trace_Fields.cfg", t2, reset_events=("FieldBegin",), shards=12, tag="C08-relchk")
    chk.add_tv("fields[relchk]", r2)
    report_rejects(chk, r2, lambda ev, d: "[overflow-checks] " + sig(ev, d),
                   lambda ev, d: "[overflow-checks] field %s: decode->encode of a bit pattern violates Quant or panics (event %s)" % (ev.get("id", ev.get("number")), json.dumps(ev)[:300]))
    tried = 0
    fields_full = set()
    n_obs = 0
    for ln, o in r["lines"]:
        if o["ev"] == "FieldSweep":
            tried += o["tried"]
            n_obs += 1
            if o["stride"] == 1:
                fields_full.add(o["id"])
        elif o["ev"] == "FieldRt":
            tried += 1
            n_obs += 1
        elif o["ev"] == "BiasSweep":
            tried += o["tried"]
    chk.cov["evaluations"] = tried
    chk.cov["distinct_nontrivial"] = n_obs
    chk.assumptions += ["the field table is extracted from src/df/dfs.rs (structure knowledge: widths, kinds, inv); the oracle (identity up to negative zero, single absent pattern) is the spec's",
                        "fields wider than the exhaustive limit rest on the error budget Safe(f) checked by TLC plus strided/sampled patterns"]
    return chk.finish("model_checking", RULE, extra={"fields_swept_exhaustively": len(fields_full), "patterns_evaluated": tried})


def replay(chk, path):
    run_extractor()
    return replay_session(chk, path, "Trace_Fields", "Trace_Fields.cfg", reset_events=("FieldBegin",))


def selftest(chk):
    run_extractor()
    t = record("fields", chk.path("st.ndjson"), seed=chk.seed, full_w=10, sample_bits=10, samples=3, threads=8)
    def mut(o):
        if o["ev"] == "FieldSweep" and o["w"] >= 8:
            o["absent"] = [[0] * (o["w"] - 1) + [1]]
            return True
        return False
    corrupt_one_field(t, chk.path("st_bad.ndjson"), mut)
    r = tv("Trace_Fields", "Trace_Fields.cfg", chk.path("st_bad.ndjson"), reset_events=("FieldBegin",), shards=4, tag="C08-st")
    if len(r["rejects"]) != 1:
        raise ToolError("selftest: corrupted trace was not rejected exactly once")
    log("selftest ok")
    return 0
