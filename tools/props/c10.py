"""C10 -- MSM satellite, signal and cell masks follow the standard for any input order."""
from common import *
from props.framelib import *

RULE = ("MC: small universe (4 satellites, 3 signals, <= 6 cells): for every admissible (S,G,C) and ascending/descending input order the code's "
        "index arithmetic equals the declarative row-major mask, decoding the masks returns the cells in standard order, and each singly broken "
        "precondition yields its error; the spec's signal tables are checked injective; TV: for all 49 MSM message types seeded admissible triples "
        "(|S| 1..64, |G| 1..8, densities 5-100 %, incl. satellites 1 and 64, exactly 64 cells) in ascending / reversed / shuffled list order and one "
        "input per violation class (satellite 0/65/100/255, unrecognised signal, duplicate satellite, duplicate cell, satellite without cell, cell "
        "without satellite, > 64 mask cells, no cells, empty), in both build profiles (the overflow-checked one on a smaller sample); masks are read from the frame at payload bits 73/137/169 and compared by TLC with "
        "SatMask/SigMask/CellMask computed from the input with positions from SigTables; decoded rows must be sorted by satellite then signal "
        "position and each row's payload digest must follow its key; non-trivial = all; distinct = distinct (type, S, cells, order)")


def sig(ev, d):
    return "Msm class=%s out=%s expected_errors=%s dec=%s" % (ev.get("class"), ev.get("out", "")[:40], d.get("errors_expected"), ev.get("dec"))


def run(chk):
    q = chk.quick
    chk.add_mc(mc("MC_Msm", "MC_Msm.cfg" if q else "MC_Msm_thorough.cfg", workers=8, timeout=3000))
    chk.add_mc(mc("MC_SigTables", "MC_SigTables.cfg", workers=1))
    t = record("msm", chk.path("msm.ndjson"), seed=chk.seed, per_type=30 if q else 1500, timeout=3000)
    r = tv("Trace_Msm", "Trace_Msm.cfg", t, shards=12, tag="C10")
    chk.add_tv("msm", r)
    report_rejects(chk, r, sig, lambda ev, d: "MSM %s (%s): masks / row order / error differ from the Msm specification" % (ev.get("number"), ev.get("class")))
    # the same (smaller) campaign in the overflow-checked build: an invalid input must be answered by its error there too
    t2 = record("msm", chk.path("msm-relchk.ndjson"), profile="relchk", seed=chk.seed + 7, per_type=9 if q else 200, timeout=3000)
    r2 = tv("Trace_Msm", "Trace_Msm.cfg", t2, shards=12, tag="C10-relchk")
    chk.add_tv("msm[relchk]", r2)
    report_rejects(chk, r2, lambda ev, d: "[overflow-checks] " + sig(ev, d),
                   lambda ev, d: "[overflow-checks] MSM %s (%s): masks / row order / error differ from the Msm specification" % (ev.get("number"), ev.get("class")))
    classes = {}
    for ln, o in r["lines"]:
        classes[o["class"]] = classes.get(o["class"], 0) + 1
    for c in ("admissible", "bad-satellite", "bad-signal", "dup-satellite", "dup-cell", "too-many-cells", "empty"):
        if classes.get(c, 0) < 10:
            chk.vacuity("vacuity: class %s has %d cases" % (c, classes.get(c, 0)))
    chk.cov["distinct_nontrivial"] = len(set(ln for ln, o in r["lines"]))
    chk.assumptions += ["MSM header is 73 bits before the 64-bit satellite mask (pinned fact from the standard)",
                        "a cell whose descriptor the library accepts but SigTables does not list (library extension) puts the event out of scope"]
    return chk.finish("model_checking", RULE, extra={"classes": classes})


def replay(chk, path):
    return replay_session(chk, path, "Trace_Msm", "Trace_Msm.cfg")


def selftest(chk):
    t = record("msm", chk.path("st.ndjson"), seed=chk.seed, per_type=1)
    def mut(o):
        if o["class"] == "admissible" and len(o.get("dec_cells", [])) >= 2:
            o["dec_cells"][0], o["dec_cells"][1] = o["dec_cells"][1], o["dec_cells"][0]
            return True
        return False
    corrupt_one_field(t, chk.path("st_bad.ndjson"), mut)
    r = tv("Trace_Msm", "Trace_Msm.cfg", chk.path("st_bad.ndjson"), shards=2, tag="C10-st")
    if len(r["rejects"]) != 1:
        raise ToolError("selftest: corrupted trace was not rejected exactly once")
    log("selftest ok")
    return 0
