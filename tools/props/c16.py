"""C16 -- SSR code-bias and GLONASS bias lists keep every entry or report an error."""
from common import *
from props.framelib import *

RULE = ("MC: toy list codec (3 satellites, 3 signals, per-satellite count field of 2 values) over all lists of <= 5 entries: Dec(Enc(es)) = es regrouped by "
        "ascending satellite; the variant without the count guards yields the wrap counterexample; spec SSR tables injective; TV: 1059/1065 lists built "
        "through the public API: satellite counts 0,1,2,31,32,33,62,63,64 with one recognised entry each, satellite ids at / beyond the field width, "
        "seeded lists inside the precondition (1..63 satellites, 1..12 / 1..4 distinct recognised signals per satellite, biases on the 14-bit grid incl. "
        "both ends, entries of one satellite scattered through the list), outside it (repeated signals > 31 per satellite, unrecognised signal), 1230 with "
        "every non-empty subset of its four signals in every order; TLC: MustErr => error, ok => wire bits = BiasList!Enc(entries) + zero padding and "
        "decode = the same entries (bias bit patterns included) regrouped; decoded lists never exceed 390 entries (hostile frames: C02); every satellite id 0..66 alone; more than 31 entries for one satellite (contiguous, in separated runs, alternating, 32..390 incl. counts that wrap 8 bits): error, or a frame that still holds every entry; both build profiles (a panic is neither an error nor a frame); "
        "non-trivial = list inside the precondition; distinct = distinct lists")


def sig(ev, d):
    return "Bias %s class=%s out=%s pre=%s must_err=%s dec=%s" % (ev.get("number"), ev.get("class"), ev.get("out", "")[:30], d.get("pre"), d.get("must_err"), ev.get("dec"))


def run(chk):
    q = chk.quick
    chk.add_mc(mc("MC_BiasList", "MC_BiasList.cfg", workers=8))
    chk.add_neg(mc("MC_BiasList", "NEG_C16_wrap.cfg", expect_fail=True))
    chk.add_mc(mc("MC_SigTables", "MC_SigTables.cfg", workers=1))
    t = record("bias", chk.path("bias.ndjson"), seed=chk.seed, n=300 if q else 8000, timeout=3000)
    r = tv("Trace_Bias", "Trace_Bias.cfg", t, shards=12, tag="C16")
    chk.add_tv("bias", r)
    report_rejects(chk, r, sig, lambda ev, d: "bias list of message %s: entries lost / wire form differs from BiasList!Enc / missing error" % ev.get("number"))
    t2 = record("bias", chk.path("bias-relchk.ndjson"), profile="relchk", seed=chk.seed + 7, n=150 if q else 3000, timeout=3000)
    r2 = tv("Trace_Bias", "Trace_Bias.cfg", t2, shards=12, tag="C16-relchk")
    chk.add_tv("bias[relchk]", r2)
    report_rejects(chk, r2, lambda ev, d: "[overflow-checks] " + sig(ev, d),
                   lambda ev, d: "[overflow-checks] bias list of message %s: entries lost / wire form differs from BiasList!Enc / missing error / panic (%s)" % (ev.get("number"), str(ev.get("out"))[:120]))
    inpre = sum(1 for ln, o in r["lines"] if o["class"] in ("random-pre", "sat-count", "subset-order", "sat-id"))
    chk.cov["distinct_nontrivial"] = len(set(ln for ln, o in r["lines"] if o["class"] in ("random-pre", "sat-count", "subset-order", "sat-id")))
    if inpre < 300:
        chk.vacuity("vacuity: %d lists inside the precondition" % inpre)
    chk.assumptions += ["list offsets inside the payload (61 / 58 / 25 bits) follow the library's own header layout (cross-checked by the extractor for 1059/1065)"]
    return chk.finish("model_checking", RULE)


def replay(chk, path):
    return replay_session(chk, path, "Trace_Bias", "Trace_Bias.cfg")


def selftest(chk):
    t = record("bias", chk.path("st.ndjson"), seed=chk.seed, n=5)
    def mut(o):
        if o["class"] == "random-pre" and o.get("out") == "ok" and len(o["entries_out"]) > 2:
            o["entries_out"] = o["entries_out"][:-1]
            return True
        return False
    corrupt_one_field(t, chk.path("st_bad.ndjson"), mut)
    r = tv("Trace_Bias", "Trace_Bias.cfg", chk.path("st_bad.ndjson"), shards=2, tag="C16-st")
    if len(r["rejects"]) != 1:
        raise ToolError("selftest: corrupted trace was not rejected exactly once")
    log("selftest ok")
    return 0
