"""C18 -- signal identifier tables are one-to-one and ordered as on the wire."""
from common import *
from props.framelib import *

RULE = ("MC: the spec's own tables (transcribed from the RTCM MSM signal tables) are injective both ways, inside 2..32, contain the pinned examples, and "
        "ordering by position is a strict total order; TV (exhaustive over the public descriptor space): per constellation is_valid for every band "
        "0..255 x attribute U+0000..U+00FF plus 2000 seeded other characters, the wire position of every valid descriptor (signal-mask bit of a "
        "one-cell MSM4 frame), the decode of every mask position 1..32, and the full cmp / == matrix over all recognised + 12 unrecognised "
        "descriptors; TLC checks bijection into 2..32, standard table subset of observed, valid iff in table, decode inverse, cmp = position order with "
        "unrecognised last, antisymmetry, transitivity over all triples, cmp = Equal iff ==; non-trivial = all; distinct = constellations x matrix entries")


def run(chk):
    chk.add_mc(mc("MC_SigTables", "MC_SigTables.cfg", workers=1))
    t = record("sigtable", chk.path("sig.ndjson"), seed=chk.seed)
    r = tv("Trace_Sig", "Trace_Sig.cfg", t, shards=7, tag="C18")
    chk.add_tv("sigtable", r)
    def sg(ev, d):
        return "SigTable %s missing_standard=%d" % (ev.get("gnss"), len(d.get("missing_standard", [])))
    report_rejects(chk, r, sg, lambda ev, d: "observed signal table of %s violates the SigTables demands" % ev.get("gnss"))
    n = 0
    calls = 0
    for ln, o in r["lines"]:
        n += len(o["cmp"]) + len(o["pos"]) + 32
        calls += o["probed"]
    chk.cov["evaluations"] = calls
    chk.cov["distinct_nontrivial"] = n
    chk.cov["samples"] = [{"gnss": o["gnss"], "valid": o["valid"], "pos": o["pos"][:6], "decode": o["decode"][:6]} for ln, o in r["lines"][:2]]
    chk.assumptions += ["PartialOrd::partial_cmp returns None where Ord::cmp orders unrecognised descriptors; logged, not judged (the property is anchored on Ord)"]
    return chk.finish("model_checking", RULE, exhaustive=True)


def replay(chk, path):
    return replay_session(chk, path, "Trace_Sig", "Trace_Sig.cfg")


def selftest(chk):
    t = record("sigtable", chk.path("st.ndjson"), seed=chk.seed)
    def mut(o):
        if o["gnss"] == "qzss":
            for p in o["pos"]:
                if p[2] == [11]:
                    p[2] = [12]
                    return True
        return False
    corrupt_one_field(t, chk.path("st_bad.ndjson"), mut)
    r = tv("Trace_Sig", "Trace_Sig.cfg", chk.path("st_bad.ndjson"), shards=7, tag="C18-st")
    if len(r["rejects"]) != 1:
        raise ToolError("selftest: corrupted trace was not rejected exactly once")
    log("selftest ok")
    return 0
