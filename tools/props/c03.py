"""C03 -- a frame is accepted iff preamble, length and CRC-24Q all check out."""
from common import *
from props.framelib import *

RULE = ("MC: all toy-profile strings up to length 8 (partition, stability) + real-constant CRC/frame theorems; "
        "GEN->replay: for payload lengths {0,1,2,3,4,19,254,255,256,511,512,1022,1023} (thorough: every length 0..1023) TLC emits the valid frame and 19 near-misses with the admissible outcomes and fixed observations, replayed on MessageFrame::new; TV: FrameNew events = MessageFrame::new on random slices, library-built frames of all supported types, "
        "valid frames of boundary/all payload lengths and their near-misses (wrong preamble, truncations, checksum "
        "bit/byte errors, length +-1/+-256, reserved bits with/without CRC refresh, trailing bytes); an event is "
        "non-trivial when the slice starts with 0xD3; distinct = distinct byte strings")


def sig(ev, d):
    exp = d.get("expected", {})
    wrong = [k for k in ("flen", "dlen", "crc", "num") if ev.get("out") == "ok" and k in exp and exp.get(k) != ev.get(k)]
    return "FrameNew out=%s admissible=%s wrong_fields=%s" % (ev.get("out"), d.get("admissible"), wrong)


def run(chk):
    q = chk.quick
    chk.add_mc(mc("MC_Frame", "MC_Frame.cfg", workers=8))
    chk.add_mc(mc("MC_Frame", "MC_Frame_A4.cfg", workers=8))          # alphabet 4: a length symbol with a "reserved" part
    chk.add_mc(mc("MC_Crc", "MC_Crc.cfg" if q else "MC_Crc_thorough.cfg", workers=2, timeout=3000))
    chk.add_neg(mc("MC_Frame", "NEG_C13.cfg", expect_fail=True))
    # GEN -> replay: spec-chosen slices (valid frame + near-misses per payload length) with the spec's expectation
    g = gen("Gen_Frame", "Gen_Frame.cfg" if q else "Gen_Frame_thorough.cfg", chk.path("gen.vec"), timeout=3000)
    chk.cov["gen_runs"].append({"module": "Gen_Frame", "behaviours": g["behaviours"]})
    res = replay_vectors("frames", chk.path("gen.vec"), chk.path("gen.res"))
    for ln in open(res):
        o = json.loads(ln)
        if o["ev"] == "Mismatch":
            v = o["vector"]
            chk.violation("GEN replay: got %s admissible %s" % (o["got"].get("out"), v["admissible"]),
                          "MessageFrame::new on a spec-generated slice (%d bytes) answers %s, the specification admits %s / %s" % (len(v["bytes"]), json.dumps(o["got"])[:200], v["admissible"], v["obs"]),
                          {"vector": v, "got": o["got"]})
        elif o["ev"] == "ReplaySummary":
            chk.cov["traces_validated_against_impl"] += o["vectors"]
            chk.cov["evaluations"] += o["vectors"]
    t = record("frame_new", chk.path("fn.ndjson"), n=5000 if q else 60000, seed=chk.seed, all_lengths=0 if q else 1)
    hang_violation(chk, t, "MessageFrame::new")
    r = tv("Trace_Frame", "Trace_Frame.cfg", t, shards=10, tag="C03")
    chk.add_tv("frame_new", r)
    report_rejects(chk, r, sig, lambda ev, d: "MessageFrame::new disagrees with the frame specification on a %d-byte slice (reported %s)" % (len(ev["bytes"]), ev.get("out")))
    t2 = record("frame_new", chk.path("fn-relchk.ndjson"), profile="relchk", n=2000 if q else 20000, seed=chk.seed + 13, all_lengths=0)
    hang_violation(chk, t2, "MessageFrame::new [overflow-checks]")
    r2 = tv("Trace_Frame", "Trace_Frame.cfg", t2, shards=10, tag="C03-relchk")
    chk.add_tv("frame_new[relchk]", r2)
    report_rejects(chk, r2, lambda ev, d: "[overflow-checks] " + sig(ev, d),
                   lambda ev, d: "[overflow-checks] MessageFrame::new disagrees with the frame specification on a %d-byte slice (reported %s)" % (len(ev.get("bytes", [])), ev.get("out")))
    nontriv = set()
    outs = {}
    for ln, o in r["lines"]:
        outs[o["out"]] = outs.get(o["out"], 0) + 1
        if o["bytes"] and o["bytes"][0] == 0xD3:
            nontriv.add(ln)
    chk.cov["distinct_nontrivial"] = len(nontriv)
    for k in ("ok", "incomplete", "notvalid"):
        if outs.get(k, 0) < 20:
            chk.vacuity("vacuity: only %d '%s' outcomes recorded" % (outs.get(k, 0), k))
    chk.assumptions += ["TLC + CommunityModules (Bitwise, Json, IOUtils) are correct",
                        "harness pointer arithmetic reports (offset,len) of returned slices faithfully"]
    return chk.finish("model_checking", RULE, extra={"outcomes": outs})


def replay(chk, path):
    return replay_session(chk, path, "Trace_Frame", "Trace_Frame.cfg")


def selftest(chk):
    t = record("frame_new", chk.path("st.ndjson"), n=300, seed=chk.seed)
    def mut(o):
        if o.get("out") == "ok" and o["dlen"] > 0:
            o["dlen"] += 1
            return True
        return False
    corrupt_one_field(t, chk.path("st_bad.ndjson"), mut)
    r = tv("Trace_Frame", "Trace_Frame.cfg", chk.path("st_bad.ndjson"), shards=1, tag="C03-st")
    if len(r["rejects"]) != 1:
        raise ToolError("selftest: corrupted trace was not rejected exactly once")
    log("selftest ok: a corrupted dlen field is rejected")
    return 0
