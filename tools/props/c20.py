"""C20 -- serialising a message with serde and reading it back gives the same message."""
from common import *
from props.framelib import *

RULE = ("MC: capacity model of the two hand-written string (de)serialisers: descriptor bytes over {0x00,0x41,0x7F,0x80,0xA4,0xFF}, N = 3: the round trip is "
        "the identity when the characters are streamed / buffered in >= 2N bytes, and loses characters with an N-byte buffer (NEG_C20_cap, the defect D6); "
        "ArrayString prefixes are stable; TV (serde feature on): for all supported message types messages decoded from generated frames, value-tree "
        "mutants without non-finite floats, messages decoded from hostile frames, descriptor strings of 0..31 Latin-1 high-half / mixed characters in every "
        "descriptor-bearing type, 1029 text at 127 characters / 255 bytes; each is serialised to the harness's own self-describing value tree AND to "
        "serde_json, deserialised, and must give a structurally identical tree (128-bit digest) and an equal message (PartialEq); "
        "non-trivial = all; distinct = distinct (message digest, data model)")


def sig(ev, d):
    return "Serde via=%s src=%s ser=%s de=%s eq=%s same_tree=%s" % (ev.get("via"), ev.get("src"), ev.get("ser", "")[:12], ev.get("de", "")[:12], ev.get("eq"),
                                                              ev.get("tree_in") == ev.get("tree_out"))


def run(chk):
    q = chk.quick
    chk.add_mc(mc("MC_Serde", "MC_Serde.cfg", workers=4))
    chk.add_neg(mc("MC_Serde", "NEG_C20_cap.cfg", expect_fail=True))
    t = record("serde", chk.path("serde.ndjson"), seed=chk.seed, per_type=6 if q else 300, timeout=3000)
    r = tv("Trace_Serde", "Trace_Serde.cfg", t, shards=8, tag="C20")
    chk.add_tv("serde", r)
    report_rejects(chk, r, sig, lambda ev, d: "serde round trip of %s via %s does not give the message back" % (ev.get("variant"), ev.get("via")))
    variants = set(o["variant"] for ln, o in r["lines"])
    if len(variants) < 100:
        chk.vacuity("vacuity: only %d message types" % len(variants))
    chk.cov["distinct_nontrivial"] = len(set((o["tree_in"], o["via"]) for ln, o in r["lines"]))
    chk.assumptions += ["the derived Serialize/Deserialize impls are observed, not modelled; the spec's own content is the string capacity model",
                        "messages with non-finite floats are outside the property's quantifier and skipped"]
    return chk.finish("exploration", RULE, extra={"message_types": len(variants)})


def replay(chk, path):
    return replay_session(chk, path, "Trace_Serde", "Trace_Serde.cfg")


def selftest(chk):
    t = record("serde", chk.path("st.ndjson"), seed=chk.seed, per_type=1)
    def mut(o):
        o["tree_out"] = "0" * 32
        return True
    corrupt_one_field(t, chk.path("st_bad.ndjson"), mut)
    r = tv("Trace_Serde", "Trace_Serde.cfg", chk.path("st_bad.ndjson"), shards=2, tag="C20-st")
    if len(r["rejects"]) != 1:
        raise ToolError("selftest: corrupted trace was not rejected exactly once")
    log("selftest ok")
    return 0
