"""C06 -- frame delivery does not depend on how the stream is split into chunks."""
from common import *
from props.framelib import *

RULE = ("MC: Stream spec, all toy streams up to length 7 (quick) / 8 (thorough) x all chunkings x all interleavings of Feed and "
        "ScanStep: ChunkInv, PrefixInv, pending = unconsumed, liveness <>[]Quiescent; NEG variant (skip-incomplete scanner) refuted; GEN->replay: TLC simulates the Stream spec in the REAL profile (streams assembled from frame / corrupted / truncated / stray / long-header / garbage / nested pieces, cut sizes {1,2,3,5,6,7,11,46,rest}, free interleaving of Feed and Scan) and every behaviour is stepped through the real next_msg_frame, each call compared with the spec-computed result; TV: streaming sessions on the real next_msg_frame with the caller protocol of the "
        "property (extend / drain consumed), chunk styles {1 byte, tiny, random, mixed+lazy scanning}; every Feed/Scan/End event "
        "must be a Stream step and End must equal WholeScan(stream); Link: MC of the composition sender -> noise -> chunked receiver in the toy profile (safety, all-delivered, liveness) and TV of end-to-end sessions (real MessageBuilder frames of all message types interleaved with noise and arbitrary chunking, delivered frames decoded); non-trivial = session whose stream holds a 0xD3 and "
        "is cut into >= 2 chunks; distinct = distinct (stream, chunking)")


def sig(ev, d):
    return "Stream session rejected at %s event" % ev["ev"]


def run(chk):
    q = chk.quick
    r0 = mc("MC_Stream", "MC_Stream.cfg" if q else "MC_Stream_thorough.cfg", workers=8, timeout=3000)
    chk.add_mc(r0)
    chk.add_neg(mc("MC_Stream", "NEG_C06_skip.cfg", expect_fail=True))
    chk.add_mc(mc("MC_Frame", "MC_Frame.cfg", workers=8))
    chk.add_mc(mc("MC_Stream", "MC_Stream_A4.cfg", workers=8, timeout=3000))
    # GEN -> replay: behaviours of the Stream spec in the REAL profile (TLC simulation), each stepped through the real
    # scanner with the caller protocol; every scanner call must return what the spec computed, the final state must match
    g = gen("Gen_Stream", "Gen_Stream.cfg", chk.path("gen.vec"), simulate=300 if q else 6000, depth=90, seed=chk.seed, timeout=3000)
    chk.cov["gen_runs"].append({"module": "Gen_Stream", "behaviours": g["behaviours"], "states": g["states"]})
    res = replay_vectors("stream", chk.path("gen.vec"), chk.path("gen.res"), seed=chk.seed)
    replayed = 0
    for ln in open(res):
        o = json.loads(ln)
        if o["ev"] == "Mismatch":
            chk.violation("GEN replay: %s mismatch got%s" % (o["what"], "<" if str(o["got"]) < str(o["expected"]) else ">"),
                          "a behaviour generated from the Stream specification is not reproduced by the real scanner: step %s expected %s got %s" % (o["step"], o["expected"], o["got"]),
                          {"behaviour": o["vector"], "step": o["step"], "expected": o["expected"], "got": o["got"]})
        elif o["ev"] == "ReplaySummary":
            replayed = o["behaviours"]
            chk.cov["traces_validated_against_impl"] += o["behaviours"]
            chk.cov["evaluations"] += o["scans"]
    if replayed < 50:
        raise ToolError("GEN replay ran only %d behaviours" % replayed)
    t = record("stream", chk.path("stream.ndjson"), n=240 if q else 3000, seed=chk.seed)
    hang_violation(chk, t, "next_msg_frame in a streaming session")
    r = tv("Trace_Stream", "Trace_Stream.cfg", t, reset_events=("StreamInit",), shards=10, tag="C06")
    chk.add_tv("stream", r)
    report_rejects(chk, r, sig, lambda ev, d: "a recorded streaming session is not a behaviour of the Stream specification (first bad event: %s)" % json.dumps(ev)[:200])
    # Link: the end-to-end composition (sender frames payloads, noise without preamble bytes, chunked receiver)
    chk.add_mc(mc("MC_Link", "MC_Link.cfg" if q else "MC_Link_thorough.cfg", workers=8, timeout=3000))
    tl = record("link", chk.path("link.ndjson"), n=120 if q else 2500, seed=chk.seed)
    rl = tv("Trace_Link", "Trace_Link.cfg", tl, reset_events=("LinkInit",), shards=10, tag="C06-link")
    chk.add_tv("link", rl)
    report_rejects(chk, rl, lambda ev, d: "Link session rejected at %s event" % ev["ev"],
                   lambda ev, d: "an end-to-end session (real builder -> channel -> real scanner/decoder) is not a behaviour of the Link specification (first bad event: %s)" % json.dumps(ev)[:200])
    nontriv = set()
    delivered = 0
    cur = None
    feeds = 0
    for ln, o in r["lines"]:
        if o["ev"] == "StreamInit":
            cur, feeds = o, 0
        elif o["ev"] == "Feed":
            feeds += 1
        elif o["ev"] == "End":
            delivered += len(o["delivered"])
            if cur is not None and 0xD3 in cur["stream"] and feeds >= 2:
                nontriv.add(json.dumps([cur["stream"], cur["style"]]))
    if delivered < 100:
        chk.vacuity("vacuity: only %d frames delivered over all sessions" % delivered)
    chk.cov["distinct_nontrivial"] = len(nontriv)
    return chk.finish("model_checking", RULE, extra={"frames_delivered": delivered})


def replay(chk, path):
    return replay_session(chk, path, "Trace_Stream", "Trace_Stream.cfg", reset_events=("StreamInit",))


def selftest(chk):
    t = record("stream", chk.path("st.ndjson"), n=12, seed=chk.seed)
    def mut(o):
        if o["ev"] == "End" and o["delivered"]:
            o["delivered"] = o["delivered"][:-1]
            return True
        return False
    corrupt_one_field(t, chk.path("st_bad.ndjson"), mut)
    r = tv("Trace_Stream", "Trace_Stream.cfg", chk.path("st_bad.ndjson"), reset_events=("StreamInit",), shards=1, tag="C06-st")
    if len(r["rejects"]) != 1:
        raise ToolError("selftest: corrupted trace was not rejected exactly once")
    log("selftest ok")
    return 0
