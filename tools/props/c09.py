"""C09 -- encoding is total and every emitted frame is well formed."""
from common import *
from props.framelib import *

RULE = ("MC: Builder state machine on a toy window, all histories up to 4 builds over an abstract pool: every Finish frame is well formed, "
        "an overflowing put emits nothing; real-constant CRC theorems; TV: build_message sessions on fresh builders recorded with the put hook, "
        "in BOTH build profiles (release, release+overflow-checks): for all supported message types normal-form messages, systematically every numeric leaf at {-inf, +inf, NaN, type min, type max} / {max, min, 0, mid, 1} (all leaves of small messages, an evenly spread rotating subset of large ones), single-leaf "
        "extremes (None/Some), random value-tree mutants (ints, floats, options, list length/order/duplicates, "
        "text), MSM edge inputs (satellite 0/65/255, unrecognised signal, duplicates, mismatch, |S|x|G| around 64), SSR/1230 bias lists, "
        "GLONASS channel numbers at the i8 edge, messages obtained by decoding hostile CRC-valid frames, the three wire-less variants; every Put must be a Builder step at the spec cursor and "
        "every returned frame must equal the spec's Finish frame and be well formed with the variant's number; a panic is rejected; "
        "non-trivial = session with at least one put; distinct = distinct (variant, put sequence) sessions")


def sig(ev, d, sess):
    begin = next((e for e in sess if e.get("ev") == "BuildBegin"), {})
    if ev["ev"] == "BuildEnd":
        out = ev.get("out", "")
        kind = out.split("@")[0][:90] if out.startswith("panic") else out
        return "build %s: BuildEnd rejected out=%s" % (begin.get("variant"), kind)
    return "build %s: %s event rejected (kind=%s carrier=%s w=%s ok=%s)" % (begin.get("variant"), ev["ev"], ev.get("kind"), ev.get("carrier"), ev.get("w"), ev.get("ok"))


def run_profile(chk, profile, per_type):
    t = record("build", chk.path("build-%s.ndjson" % profile), profile=profile, seed=chk.seed, per_type=per_type, work=10000 if per_type <= 10 else 60000, timeout=3000)
    r = tv("Trace_Build", "Trace_Build.cfg", t, reset_events=("NewBuilder",), shards=12, tag="C09-" + profile)
    chk.add_tv("build[%s]" % profile, r)
    for rj in r["rejects"]:
        if recorder_level_reject(chk, rj):
            continue
        ev, d = rj["event"], rj["diag"]
        chk.violation(sig(ev, d, rj["session"]) ,
                      "[%s] build session is not a behaviour of Builder: %s" % (profile, json.dumps(ev)[:300]),
                      {"profile": profile, "session": rj["session"], "rejected_index": rj["index_in_session"], "spec_diagnosis": d})
    return r


def run(chk):
    q = chk.quick
    r0 = mc("MC_Builder", "MC_Builder.cfg" if q else "MC_Builder_thorough.cfg", workers=4, dump_actions=True)
    chk.add_mc(r0)
    chk.require_actions(r0, ["StartB", "StepPut", "EndIt"])
    chk.add_mc(mc("MC_Crc", "MC_Crc.cfg", workers=2))
    sessions = set()
    outs = {}
    for profile in ("release", "relchk"):
        r = run_profile(chk, profile, 10 if q else 150)
        cur = []
        for ln, o in r["lines"]:
            if o["ev"] == "BuildBegin":
                cur = [o["variant"]]
            elif o["ev"] == "Put":
                cur.append(ln)
            elif o["ev"] == "BuildEnd":
                k = o["out"].split(":")[0] + (":" + o["out"].split(":")[1].split(" ")[0] if o["out"].startswith("err") else "")
                outs[k] = outs.get(k, 0) + 1
                if len(cur) > 1:
                    sessions.add(hash(tuple(cur)))
    # well-formedness on reused builders (the trace spec is the same; history independence itself is C12)
    th = record("history", chk.path("hist.ndjson"), seed=chk.seed, histories=4 if q else 40, calls=50 if q else 150)
    rh = tv("Trace_Build", "Trace_Build.cfg", th, reset_events=("NewBuilder",), shards=12, tag="C09-hist")
    chk.add_tv("reused-builders", rh)
    for rj in rh["rejects"]:
        if recorder_level_reject(chk, rj):
            continue
        chk.violation("reused builder: " + sig(rj["event"], rj["diag"], rj["session"][-40:]),
                      "a build on a reused builder is not a behaviour of Builder: %s" % json.dumps(rj["event"])[:300],
                      {"session_tail": rj["session"][max(0, rj["index_in_session"] - 60):rj["index_in_session"]], "spec_diagnosis": rj["diag"]})
    chk.cov["distinct_nontrivial"] = len(sessions)
    if outs.get("ok", 0) < 200 or sum(v for k, v in outs.items() if k.startswith("err")) < 50:
        chk.vacuity("vacuity: outcomes %s" % outs)
    chk.assumptions += ["fields whose value is not representable in their width are only required to stay inside their own bits (C07 does not fix their content)",
                        "the put hook (cfg rtcm_rs_verif) reports arguments faithfully"]
    return chk.finish("model_checking", RULE, extra={"outcomes": outs, "profiles": ["release", "relchk (overflow-checks)"]})


def replay(chk, path):
    with open(path) as f:
        obj = json.load(f)
    # the recorded session is replayed against the spec; to re-run the code, use the quick command
    return replay_session(chk, path, "Trace_Build", "Trace_Build.cfg", reset_events=("NewBuilder",))


def selftest(chk):
    t = record("build", chk.path("st.ndjson"), seed=chk.seed, per_type=1)
    def mut(o):
        if o["ev"] == "BuildEnd" and o["out"] == "ok" and len(o["frame"]) > 20:
            o["frame"][10] ^= 4
            o["fresh"][10] ^= 4
            return True
        return False
    corrupt_one_field(t, chk.path("st_bad.ndjson"), mut)
    r = tv("Trace_Build", "Trace_Build.cfg", chk.path("st_bad.ndjson"), reset_events=("NewBuilder",), shards=4, tag="C09-st")
    if len(r["rejects"]) != 1:
        raise ToolError("selftest: corrupted trace was not rejected exactly once (%d)" % len(r["rejects"]))
    # remove one hook event: the cursor check must notice
    dropped = False
    with open(t) as f, open(chk.path("st_drop.ndjson"), "w") as g:
        for ln in f:
            if not dropped and '"ev":"Put"' in ln and '"off":12' in ln:
                dropped = True
                continue
            g.write(ln)
    r = tv("Trace_Build", "Trace_Build.cfg", chk.path("st_drop.ndjson"), reset_events=("NewBuilder",), shards=4, tag="C09-st")
    if len(r["rejects"]) != 1:
        raise ToolError("selftest: trace with a removed hook event was not rejected exactly once")
    log("selftest ok")
    return 0
