"""C12 -- a builder's output depends only on the message, not on what it built before."""
from common import *
from props.framelib import *

RULE = ("MC: Builder with the buffer modelled byte for byte, all histories of up to 4 builds over a pool {short unaligned, aligned, long, "
        "fails-before-first-put, fails-after-most-of-the-body, overflows-the-window, sparse}: every finished build returns FreshFrame; the "
        "variants no-clear / has_run-only-on-success / partial-clear are each refuted; TV: long random histories of build_message calls on ONE "
        "MessageBuilder (all message types, maximal frames, messages failing at the first field or late, wire-less variants) recorded with the "
        "put hook; the trace spec keeps Builder's buffer and has_run across the whole history, predicts each frame from its own state and "
        "additionally requires equality with the frame a fresh builder produced; non-trivial = a build preceded by at least one other build "
        "on the same builder; distinct = distinct (previous outcome, variant, frame) triples")


def run(chk):
    q = chk.quick
    r0 = mc("MC_Builder", "MC_Builder.cfg" if q else "MC_Builder_thorough.cfg", workers=4, dump_actions=True)
    chk.add_mc(r0)
    chk.require_actions(r0, ["StartB", "StepPut", "EndIt"])
    for neg in ("NEG_C12_noclear.cfg", "NEG_C12_lazy.cfg", "NEG_C12_short.cfg"):
        chk.add_neg(mc("MC_Builder", neg, expect_fail=True))
    t = record("history", chk.path("hist.ndjson"), seed=chk.seed, histories=12 if q else 200, calls=80 if q else 200)
    r = tv("Trace_Build", "Trace_Build.cfg", t, reset_events=("NewBuilder",), shards=12, tag="C12")
    chk.add_tv("history", r)
    for rj in r["rejects"]:
        ev = rj["event"]
        sess = rj["session"]
        k = rj["index_in_session"]
        begin = None
        prev_out = "first"
        for e in sess[:k]:
            if e["ev"] == "BuildBegin":
                begin = e
            elif e["ev"] == "BuildEnd" and e is not ev:
                prev_out = e["out"].split(":")[0]
        residue = ev.get("ev") == "BuildEnd" and ev.get("out") == "ok" and ev.get("fresh") != ev.get("frame")
        sigs = "history: %s rejected (previous build %s, differs_from_fresh=%s)" % (ev["ev"], prev_out, residue)
        # keep the replay small: the rejected build and the one before it are enough to see the residue
        starts = [i for i, e in enumerate(sess[:k]) if e["ev"] == "BuildBegin"]
        cut = starts[-2] if len(starts) >= 2 else 0
        chk.violation(sigs, "a reused MessageBuilder returned something the Builder specification (= a fresh builder) does not: " + json.dumps(ev)[:300],
                      {"note": "full history shortened to the last two builds; the spec state at that point was reached from NewBuilder",
                       "session_tail": sess[cut:k], "history_builds_before": len(starts), "spec_diagnosis": rj["diag"]})
    trip = set()
    prev = "first"
    var = None
    nontriv = 0
    for ln, o in r["lines"]:
        if o["ev"] == "NewBuilder":
            prev = "first"
        elif o["ev"] == "BuildBegin":
            var = o["variant"]
        elif o["ev"] == "BuildEnd":
            if prev != "first":
                nontriv += 1
                trip.add((prev, var, hash(json.dumps(o["frame"]))))
            prev = o["out"].split(":")[0]
    kinds = {p for p, _, _ in trip}
    if not {"ok", "err"} <= kinds:
        raise ToolError("vacuity: histories lack builds after failed/successful builds: %s" % kinds)
    chk.cov["distinct_nontrivial"] = len(trip)
    return chk.finish("model_checking", RULE, extra={"builds_after_another_build": nontriv})


def replay(chk, path):
    log("C12 replays hold the tail of a history; re-run the quick command with the same VERIF_SEED to reproduce on the code")
    with open(path) as f:
        obj = json.load(f)
    print("VIOLATION property=C12 replay=%s" % path) if obj else None
    return 1


def selftest(chk):
    t = record("history", chk.path("st.ndjson"), seed=chk.seed, histories=1, calls=30)
    def mut(o):
        if o["ev"] == "BuildEnd" and o["out"] == "ok" and len(o["frame"]) > 12:
            o["frame"][-4] |= 1   # residue in the padding bits of the last payload byte
            return True
        return False
    corrupt_one_field(t, chk.path("st_bad.ndjson"), mut)
    r = tv("Trace_Build", "Trace_Build.cfg", chk.path("st_bad.ndjson"), reset_events=("NewBuilder",), shards=1, tag="C12-st")
    if len(r["rejects"]) != 1:
        raise ToolError("selftest: corrupted trace was not rejected exactly once")
    log("selftest ok")
    return 0
