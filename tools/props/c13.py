"""C13 -- a frame's interpretation does not depend on the bytes that follow it."""
from common import *
from props.framelib import *

RULE = ("MC: toy-profile stability lemma (all accepted frames x all suffixes up to 3 symbols) incl. the message number; "
        "NEG: the 'number from slice length' variant is refuted; real-constant frame sweep with suffixes; "
        "TV: Sfx events = the same frame parsed and decoded alone and followed by a suffix (empty, one byte, noise, "
        "another frame, a frame prefix), payload lengths 0,1,2 over-represented; non-trivial = non-empty suffix; "
        "distinct = distinct (frame, suffix) pairs")


def sig(ev, d):
    f = ev.get("frame", [])
    L = (((f[1] & 3) << 8) | f[2]) if len(f) >= 3 else -1
    p, w = ev.get("plain", {}), ev.get("with", {})
    diff = sorted(k for k in set(p) | set(w) if p.get(k) != w.get(k) and k not in ("msg_digest", "msg_carried"))
    big = len(ev.get("sfx", [])) + len(f) >= 65536
    return "Sfx payload_len=%s big_buffer=%s plain_out=%s with_out=%s differing=%s" % (
        "0/1" if L in (0, 1) else ">=2", big, p.get("out"), w.get("out"), diff)


def run(chk):
    q = chk.quick
    chk.add_mc(mc("MC_Frame", "MC_Frame.cfg", workers=8))
    chk.add_neg(mc("MC_Frame", "NEG_C13.cfg", expect_fail=True))
    chk.add_mc(mc("MC_Crc", "MC_Crc.cfg", workers=2))
    t = record("sfx", chk.path("sfx.ndjson"), n=3000 if q else 40000, seed=chk.seed)
    hang_violation(chk, t, "MessageFrame::new / get_message")
    r = tv("Trace_Frame", "Trace_Frame.cfg", t, shards=10, tag="C13")
    chk.add_tv("sfx", r)
    report_rejects(chk, r, sig,
                   lambda ev, d: "observations of a frame change when %d bytes follow it" % len(ev["sfx"]),
                   tool_error_if=lambda ev, d: d.get("pre") is False)
    t2 = record("sfx", chk.path("sfx-relchk.ndjson"), profile="relchk", n=1000 if q else 10000, seed=chk.seed + 13)
    hang_violation(chk, t2, "MessageFrame::new / get_message [overflow-checks]")
    r2 = tv("Trace_Frame", "Trace_Frame.cfg", t2, shards=10, tag="C13-relchk")
    chk.add_tv("sfx[relchk]", r2)
    report_rejects(chk, r2, lambda ev, d: "[overflow-checks] " + sig(ev, d),
                   lambda ev, d: "[overflow-checks] observations of a frame change when %d bytes follow it / panic" % len(ev.get("sfx", [])),
                   tool_error_if=lambda ev, d: d.get("pre") is False)
    nontriv = set()
    short = 0
    for ln, o in r["lines"]:
        if o["sfx"]:
            nontriv.add(ln)
            if len(o["frame"]) <= 7:
                short += 1
    if short < 50:
        chk.vacuity("vacuity: only %d suffix events on frames with payload < 2 bytes" % short)
    chk.cov["distinct_nontrivial"] = len(nontriv)
    chk.assumptions += ["decoded messages are compared through a 128-bit digest of their canonical value tree"]
    return chk.finish("model_checking", RULE, extra={"short_payload_with_suffix": short})


def replay(chk, path):
    return replay_session(chk, path, "Trace_Frame", "Trace_Frame.cfg")


def selftest(chk):
    t = record("sfx", chk.path("st.ndjson"), n=200, seed=chk.seed)
    def mut(o):
        if o["sfx"] and o["with"].get("out") == "ok":
            o["with"]["num"] = 1150
            o["plain"]["num"] = -1
            return True
        return False
    corrupt_one_field(t, chk.path("st_bad.ndjson"), mut)
    r = tv("Trace_Frame", "Trace_Frame.cfg", chk.path("st_bad.ndjson"), shards=1, tag="C13-st")
    if len(r["rejects"]) != 1:
        raise ToolError("selftest: corrupted trace was not rejected exactly once")
    log("selftest ok")
    return 0
