"""C02 -- decoding is total: no panic and no hang on any byte input."""
from common import *
from props.framelib import *
from props.declib import *

RULE = ("TV in BOTH build profiles (release, release+overflow-checks): for every supported message number CRC-valid frames with hostile payloads "
        "(uniform / sparse / dense / saturated random bodies of lengths 2..1023, generated frames with 1-8 payload bit flips and refreshed CRC, "
        "generated frames cut at a random byte and re-framed, structure-aware frames: SSR bias lists with maximal counts and reserved codes, "
        "MSM masks with |S|x|G| in {0,1,64,65,...,2048}); frames found by MsgFrameIter in raw random / grammar buffers up to 3000 bytes; every "
        "outcome must be a documented one of the class Dispatch allows AND the class the Decoder specification derives from the extracted layout (fixed-size messages: typed iff the body holds all bits; single-list messages: Corrupt iff count > capacity or body shorter than the count implies; MSM: empty / |S|x|G| in 1..64 / body holds masks, satellite rows and one signal row per set cell; 96 of 108 types have a fixed class), decoded floats finite, message self-equal; with the parse hook on, "
        "every Parser::parse of the call must be a BitIO parse step at the spec cursor inside the payload; a watchdog turns a call exceeding "
        "10 s into a hang; MC: BitIO parse loops = declarative (MC_BitIO); non-trivial = frame carrying a supported number; distinct = distinct frames")


def run_profile(chk, profile, per_type, raw, feats):
    t = record("decode", chk.path("dec-%s.ndjson" % profile), profile=profile, seed=chk.seed, per_type=per_type, raw=raw, hook_every=5)
    hang = t + ".hang.json"
    if os.path.exists(hang):
        h = json.load(open(hang))
        chk.violation("hang in decode [%s]" % profile, "a decode/scan call did not return within the watchdog limit", {"profile": profile, "input": h["input"]})
    with_config(t, feats)
    r = tv("Trace_Decode", "Trace_Decode.cfg", t, reset_events=("Decode",), prefix_events=("Config",), shards=12, tag="C02-" + profile)
    chk.add_tv("decode[%s]" % profile, r)
    for rj in r["rejects"]:
        if recorder_level_reject(chk, rj):
            continue
        d = rj["diag"]
        try:
            d = json.loads(d)
        except Exception:
            d = {"raw": d}
        if d.get("frame_class") not in (None, "ok"):
            raise ToolError("harness produced a frame the spec does not accept: %s" % d)
        chk.violation("[%s] " % ("both" if False else profile) + decode_sig(rj["event"], d, rj["session"]),
                      "[%s] decode of a CRC-valid frame is outside the specification: %s" % (profile, json.dumps({k: v for k, v in rj["session"][0].items() if k != "frame"})[:400]),
                      {"profile": profile, "session": rj["session"], "rejected_index": rj["index_in_session"], "spec_diagnosis": d})
    return r


def run(chk):
    q = chk.quick
    feats = features_from_cargo()
    chk.add_mc(mc("MC_BitIO", "MC_BitIO.cfg", workers=12, timeout=3000))
    frames = set()
    outs, tags = {}, {}
    for profile in ("release", "relchk"):
        r = run_profile(chk, profile, 40 if q else 1500, 150 if q else 3000, feats)
        for ln, o in r["lines"]:
            if o["ev"] == "Decode":
                outs[o["out"]] = outs.get(o["out"], 0) + 1
                tags[o["tag"]] = tags.get(o["tag"], 0) + 1
                if o["out"] != "MsgNotSupported":
                    frames.add(hash(ln))
        # "scanning for frames ... terminates": the scanner sessions of C05 (incl. tens of thousands of rejected candidates
        # on a small stack, > 64 KiB buffers) in this profile as well
        ts = record("scan", chk.path("scan-%s.ndjson" % profile), profile=profile, n=150 if q else 3000, seed=chk.seed + 11)
        hang_violation(chk, ts, "next_msg_frame / MsgFrameIter [%s]" % profile)
        rs = tv("Trace_Scan", "Trace_Scan.cfg", ts, shards=10, tag="C02-scan-" + profile)
        chk.add_tv("scan[%s]" % profile, rs)
        report_rejects(chk, rs, lambda ev, d: "[%s] %s consumed=%s at=%s" % (profile, ev.get("ev"), ev.get("consumed"), ev.get("at")),
                       lambda ev, d: "[%s] scanner result differs from Scanner!ScanResult / panicked: %s" % (profile, json.dumps({k: v for k, v in ev.items() if k not in ("buf", "frame")})[:300]))
    chk.cov["distinct_nontrivial"] = len(frames)
    if (outs.get("Typed", 0) < 500 or outs.get("Corrupt", 0) < 500) and not chk.violations:
        chk.vacuity("vacuity: outcomes %s" % outs)
    return chk.finish("model_checking", RULE, extra={"outcomes": outs, "frame_sources": tags, "profiles": ["release", "relchk (overflow-checks)"]})


def replay(chk, path):
    return replay_session(chk, path, "Trace_Decode", "Trace_Decode.cfg", reset_events=("Decode",),
                          prefix={"ev": "Config", "features": features_from_cargo()}, prefix_events=("Config",))


def selftest(chk):
    feats = features_from_cargo()
    t = record("decode", chk.path("st.ndjson"), seed=chk.seed, per_type=2, raw=2, hook_every=1)
    with_config(t, feats)
    def mut(o):
        if o["ev"] == "Parse" and o.get("ok") and o["w"] >= 3:
            o["vbits"][-1] ^= 1
            return True
        return False
    corrupt_one_field(t, chk.path("st_bad.ndjson"), mut)
    r = tv("Trace_Decode", "Trace_Decode.cfg", chk.path("st_bad.ndjson"), reset_events=("Decode",), prefix_events=("Config",), shards=2, tag="C02-st")
    if len(r["rejects"]) != 1:
        raise ToolError("selftest: corrupted trace was not rejected exactly once")
    log("selftest ok")
    return 0
