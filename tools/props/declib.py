"""Shared pieces for the decode-level checks (C02, C14)."""
import json, re
from common import *


def features_from_cargo():
    """The message features of the configuration under test (all_msgs in /repo/Cargo.toml)."""
    txt = open(os.path.join(REPO, "Cargo.toml")).read()
    m = re.search(r"all_msgs\s*=\s*\[(.*?)\]", txt, re.S)
    if not m:
        raise ToolError("cannot find all_msgs in Cargo.toml")
    nums = [int(x) for x in re.findall(r'"msg(\d+)"', m.group(1))]
    declared = set(int(x) for x in re.findall(r'^msg(\d+)\s*=\s*\[\s*\]', txt, re.M))
    if set(nums) != declared:
        raise ToolError("all_msgs and the msgNNNN feature declarations differ: %s" % sorted(set(nums) ^ declared))
    return sorted(nums)


def with_config(trace_path, features):
    """Prepend the Config event."""
    tmp = trace_path + ".cfg"
    with open(tmp, "w") as g, open(trace_path) as f:
        g.write(json.dumps({"ev": "Config", "features": features}) + "\n")
        for ln in f:
            g.write(ln)
    os.replace(tmp, trace_path)
    return trace_path


def decode_sig(ev, d, sess):
    dec = next((e for e in sess if e.get("ev") == "Decode"), ev)
    out = dec.get("out")
    pan = re.sub(r"@.*", "", dec.get("panic", ""))[:60]
    if ev["ev"] == "Decode":
        return "Decode out=%s expected_class=%s %s" % (out, d.get("expected_class"), pan)
    return "Decode: %s event rejected (ok=%s)" % (ev["ev"], ev.get("ok"))
