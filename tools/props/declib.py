"""Shared pieces for the decode-level checks (C02, C14)."""
import json, re
from common import *


def features_from_cargo():
    """The message features compiled into the configuration under test: what the harness' dependency on rtcm-rs switches on
    (the default features), resolved through group features (all_msgs = [...], msm = [...], ...)."""
    txt = open(os.path.join(REPO, "Cargo.toml")).read()
    decl = {m.group(1): re.findall(r'"([^"]+)"', m.group(2)) for m in re.finditer(r"^([A-Za-z0-9_\-]+)\s*=\s*\[(.*?)\]", txt, re.S | re.M)}
    if "default" not in decl:
        raise ToolError("cannot find the default feature set in Cargo.toml")
    seen, todo, nums = set(), ["default"], set()
    while todo:
        f = todo.pop()
        if f in seen:
            continue
        seen.add(f)
        m = re.fullmatch(r"msg(\d+)", f)
        if m:
            nums.add(int(m.group(1)))
        todo += [x for x in decl.get(f, []) if not x.startswith("dep:") and "/" not in x]
    if len(nums) < 50:
        raise ToolError("only %d message features reachable from the default features" % len(nums))
    return sorted(nums)


def with_config(trace_path, features):
    """Prepend the Config event."""
    tmp = trace_path + ".cfg"
    with open(tmp, "w") as g, open(trace_path) as f:
        g.write(json.dumps({"ev": "Config", "features": features}) + "\n")
        for ln in f:
            g.write(ln)
    os.replace(tmp, trace_path)
    return trace_path


def decode_sig(ev, d, sess):
    dec = next((e for e in sess if e.get("ev") == "Decode"), ev)
    out = dec.get("out")
    pan = re.sub(r"@.*", "", dec.get("panic", ""))[:60]
    if ev["ev"] == "Decode":
        return "Decode out=%s expected_class=%s %s" % (out, d.get("expected_class"), pan)
    return "Decode: %s event rejected (ok=%s)" % (ev["ev"], ev.get("ok"))
