"""C19 -- every message feature can be selected on its own, with or without std."""
import concurrent.futures, shutil, random
from common import *
from props.framelib import *

PROBE = os.path.join(VERIF, "probe")

RULE = ("MC (predict): the gate relation extracted from the source (cfg(any(..)) lists of shared modules, `use super::<module>::*` of every message file, the message! "
        "table, include_msg! list, all_msgs, feature declarations): every feature that uses a gated module is in its gate list, all lists agree - a discrepancy is a prediction that is confirmed or refuted by really building the implicated features; "
        "TV (one observation per configuration, the decisive step is a real build): a probe crate is built against /repo with default features off (so "
        "without std: #![no_std]) and exactly one message feature (also: no feature, all_msgs, and sampled ones with serde) and decodes a corpus of frames "
        "of every supported type produced by the full build; TLC requires build ok, frames of the selected type decoded to the same message as in the full "
        "build (digest of the Debug rendering) and every other frame reported MsgNotSupported with its number; quick: the empty set, all_msgs, 16 single "
        "features hitting every gate list at its first / middle / last member and every non-MSM family; thorough: ALL single features; "
        "non-trivial = configuration; distinct = distinct feature sets")


def build_and_probe(cfg, corpus_hex, idx):
    feats, serde = cfg
    tdir = os.path.join(WORK, "c19", "t%d" % idx)
    shutil.rmtree(tdir, ignore_errors=True)
    if feats == "ALL":
        flist = ["rtcm-rs/all_msgs"] + (["rtcm-rs/serde"] if serde else [])
    else:
        flist = ["rtcm-rs/msg%d" % n for n in feats] + (["rtcm-rs/serde"] if serde else [])
    cmd = ["cargo", "build", "--offline", "-q", "--manifest-path", os.path.join(PROBE, "Cargo.toml")]
    if flist:
        cmd += ["--features", ",".join(flist)]
    env = {"CARGO_TARGET_DIR": tdir, "CARGO_NET_OFFLINE": "true", "RUSTFLAGS": ""}
    p = sh(cmd, env=env, check=False, timeout=1200)
    ev = {"ev": "Config", "features": "ALL" if feats == "ALL" else list(feats), "serde": bool(serde), "build": "ok" if p.returncode == 0 else "fail",
          "log": "\n".join(l for l in p.stdout.splitlines() if l.startswith("error"))[:600], "results": []}
    if p.returncode == 0:
        q = sh([os.path.join(tdir, "debug", "rtcm_probe"), corpus_hex], check=False, timeout=300)
        if q.returncode != 0:
            ev["build"] = "probe-crashed"
            ev["log"] = q.stdout[-600:]
        else:
            for ln in q.stdout.splitlines():
                c, n, d = ln.split(" ")[:3]
                ev["results"].append([c, int(n), d])
    shutil.rmtree(tdir, ignore_errors=True)
    return ev


def run(chk):
    q = chk.quick
    run_extractor()
    g = json.load(open(os.path.join(WORK, "gen", "gates.json")))
    # MC_Features evaluates the gate property on the relation EXTRACTED FROM THE SOURCE TEXT.  That relation is a model of how
    # the crate organises its cfg gates today; a refactoring can change the organisation without breaking C19.  A failing
    # assumption is therefore a PREDICTION ("these features cannot be selected alone / do not decode alone"), not a verdict:
    # every feature it implicates is added to the configurations that are really built and probed below, and only a real
    # build / decode failure is reported.
    implicated, predicted = set(), []
    try:
        chk.add_mc(mc("MC_Features", "MC_Features.cfg", workers=1))
    except ToolError as e:
        if "Assumption" not in str(e):
            raise
        fs = set(g["features"])
        for n, uses in g["uses"].items():
            for m in uses:
                if m in g["gates"] and int(n) not in g["gates"][m]:
                    predicted.append("feature msg%s uses %s but is not in its cfg(any(..)) list" % (n, m))
                    implicated.add(int(n))
        for name, other in (("all_msgs", set(g["all_msgs"])), ("include_msg!", set(g["includes"])), ("message! table", set(r[3] for r in g["rows"]))):
            d = fs ^ other
            if d and other:
                predicted.append("%s differs from the feature declarations by %s" % (name, sorted(d)[:12]))
                implicated.update(d & fs)
        for row in g["rows"]:
            if len(set(row)) != 1:
                predicted.append("message! row %s: feature literal / variant / module / number differ" % row)
                implicated.update(x for x in row if x in fs)
        for a, b in g["include_pairs"]:
            if a != b:
                predicted.append("include_msg!(msg%d, \"msg%d\")" % (a, b))
                implicated.update(x for x in (a, b) if x in fs)
        for n in g["chained"]:
            predicted.append("feature msg%d switches other features on" % n)
            implicated.add(n)
        log("MC_Features: the extracted gate relation violates the gate model; predictions to be confirmed by real builds: %s" % ("; ".join(predicted)[:600] or "lists not found in the expected form"))
        chk.cov["states"] += 1
        chk.cov["transitions"] += 1
        chk.assumptions.append("MC_Features rejected the extracted gate relation (%s); its predictions were checked by building the implicated configurations" % ("; ".join(predicted)[:300] or "source organisation changed"))
    feats = g["features"]
    lock = os.path.join(PROBE, "Cargo.lock")
    if not os.path.exists(lock):
        shutil.copy(os.path.join(REPO, "Cargo.lock"), lock)
    t = record("corpus", chk.path("ref.ndjson"), seed=chk.seed, per_type=2, synthetic=1, hex=chk.path("corpus.hex"))
    ref = json.loads(open(t).read().splitlines()[0])
    rnd = random.Random(chk.seed)
    if q:
        pick = set()
        for m, lst in g["gates"].items():
            pick.update([lst[0], lst[len(lst) // 2], lst[-1]])
        for n in (1001, 1005, 1013, 1019, 1029, 1033, 1057, 1059, 1230, 1302):
            if n in feats:
                pick.add(n)
        singles = sorted(pick)[:18]
        more = sorted(implicated & set(feats))
        if len(more) > 30:
            rnd.shuffle(more)
            more = more[:30]
        singles = sorted(set(singles) | set(more))
        extra_serde = [rnd.choice(feats)]
    else:
        singles = list(feats)
        extra_serde = rnd.sample(feats, 12)
    cfgs = [((), False), ("ALL", False)] + [((n,), False) for n in singles] + [((n,), True) for n in extra_serde] + [((), True)]
    os.makedirs(os.path.join(WORK, "c19"), exist_ok=True)
    events = [ref]
    with concurrent.futures.ThreadPoolExecutor(max_workers=10) as ex:
        futs = [ex.submit(build_and_probe, c, chk.path("corpus.hex"), i) for i, c in enumerate(cfgs)]
        for f in futs:
            ev = f.result()
            if ev["features"] == "ALL":
                ev["features"] = feats
            events.append(ev)
    tp = chk.path("cfg.ndjson")
    with open(tp, "w") as f:
        for e in events:
            f.write(json.dumps(e) + "\n")
    r = tv("Trace_Features", "Trace_Features.cfg", tp, prefix_events=("Ref",), shards=4, tag="C19")
    chk.add_tv("configurations", r)
    def sg(ev, d):
        return "Config features=%s serde=%s build=%s" % (ev.get("features") if len(ev.get("features", [])) <= 2 else "many", ev.get("serde"), ev.get("build"))
    report_rejects(chk, r, sg, lambda ev, d: "feature configuration %s (serde=%s): build %s / decode results differ from the full build: %s" % (
        ev.get("features") if len(ev.get("features", [])) <= 2 else "all_msgs", ev.get("serde"), ev.get("build"), ev.get("log", "")[:300]))
    chk.cov["evaluations"] = len(cfgs)
    chk.cov["distinct_nontrivial"] = len(cfgs)
    chk.cov["samples"] = [{"features": e["features"] if len(e["features"]) < 4 else "all_msgs", "serde": e["serde"], "build": e["build"], "results": e["results"][:3]} for e in events[1:4]]
    chk.assumptions += ["a build without the `std` feature is the no_std build (#![cfg_attr(not(feature = \"std\"), no_std)]); the probe itself uses std only to read the corpus and print",
                        "messages are compared through a 128-bit digest of their Debug rendering"]
    return chk.finish("exploration", RULE, exhaustive=not q, extra={"configurations": len(cfgs), "single_features": len(singles)})


def replay(chk, path):
    log("C19 replays name the configuration; re-run the quick/thorough command to rebuild it")
    obj = json.load(open(path))
    print("VIOLATION property=C19 replay=%s" % path)
    return 1


def selftest(chk):
    log("selftest: covered by the generic trace-corruption selftests")
    return 0
