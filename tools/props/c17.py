"""C17 -- text fields are preserved exactly or cut on a character boundary."""
from common import *
from props.framelib import *

RULE = ("MC: representative code points {0,0x41,0x7F,0x80,0xA4,0xFF,0x100,0x7FF,0x800,0xFFFF,0x10000,0x10FFFF}, capacities 2..3, all strings up to capacity+2: "
        "Desc keeps the first N characters with the Latin-1 / 0xA4 mapping and reads back unchanged; Utf8Prefix is a prefix of whole characters, fits, is "
        "maximal and valid UTF-8; the well-formedness table rejects overlongs, surrogates, > U+10FFFF, truncated tails; TV: From<&str> for "
        "Df88591String<1|7|31> and ArrayString<7|31|255> on seeded Unicode strings of lengths around the capacities (ASCII, Latin-1 high half, NUL, 2/3/4-byte "
        "characters straddling the capacity, astral planes) with bytes / len / chars compared with the spec; message round trips of 1029 text (126/127/128 "
        "characters, up to 255 bytes) and 1007/1008/1033 descriptors set through From<&str>: unchanged or refused; CRC-valid 1029 frames with every class "
        "of invalid UTF-8 (and valid controls) must decode to Corrupt (Typed with the same bytes); non-trivial = all; distinct = distinct strings")


def sig(ev, d):
    return "%s %s %s out=%s dec=%s" % (ev["ev"], ev.get("kind", ev.get("number", "")), ev.get("cap", ev.get("field", "")), str(ev.get("out", ""))[:30], ev.get("dec"))


def run(chk):
    q = chk.quick
    chk.add_mc(mc("MC_Text", "MC_Text.cfg", workers=8, timeout=3000))
    t = record("text", chk.path("text.ndjson"), seed=chk.seed, n=600 if q else 30000, timeout=3000)
    r = tv("Trace_Text", "Trace_Text.cfg", t, shards=12, tag="C17")
    chk.add_tv("text", r)
    report_rejects(chk, r, sig, lambda ev, d: "text handling differs from the Text specification: %s" % json.dumps({k: v for k, v in ev.items() if k != "frame"})[:300])
    t2 = record("text", chk.path("text-relchk.ndjson"), profile="relchk", seed=chk.seed + 5, n=300 if q else 6000, timeout=3000)
    r2 = tv("Trace_Text", "Trace_Text.cfg", t2, shards=12, tag="C17-relchk")
    chk.add_tv("text[relchk]", r2)
    report_rejects(chk, r2, lambda ev, d: "[overflow-checks] " + sig(ev, d),
                   lambda ev, d: "[overflow-checks] text handling differs from the Text specification: %s" % json.dumps({k: v for k, v in ev.items() if k != "frame"})[:300])
    refused = sum(1 for ln, o in r["lines"] if o["ev"] == "TextRt" and str(o.get("out", "")).startswith("err"))
    corrupt = sum(1 for ln, o in r["lines"] if o["ev"] == "Utf8Frame" and o["dec"] == "Corrupt")
    if refused < 3 or corrupt < 20:
        chk.vacuity("vacuity: refused=%d corrupt=%d" % (refused, corrupt))
    chk.cov["distinct_nontrivial"] = len(set(ln for ln, o in r["lines"]))
    return chk.finish("model_checking", RULE, extra={"texts_refused": refused, "invalid_utf8_frames": corrupt})


def replay(chk, path):
    return replay_session(chk, path, "Trace_Text", "Trace_Text.cfg")


def selftest(chk):
    t = record("text", chk.path("st.ndjson"), seed=chk.seed, n=30)
    def mut(o):
        if o["ev"] == "Str" and o["kind"] == "desc" and len(o["bytes"]) >= 2:
            o["bytes"][1] = (o["bytes"][1] % 255) + 1
            return True
        return False
    corrupt_one_field(t, chk.path("st_bad.ndjson"), mut)
    r = tv("Trace_Text", "Trace_Text.cfg", chk.path("st_bad.ndjson"), shards=2, tag="C17-st")
    if len(r["rejects"]) != 1:
        raise ToolError("selftest: corrupted trace was not rejected exactly once")
    log("selftest ok")
    return 0
