"""Shared pieces of the frame-level checks (C03, C04, C05, C06, C13)."""
import json, os
from common import *


def replay_session(chk, path, module, cfg, reset_events=(), prefix=None, prefix_events=(), profile=None):
    """Replay a violation file: the inputs of the recorded session are re-executed on the CURRENT code by the harness
    (`rerun`; byte-input families: FrameNew, Sfx, Scan, Iter, Decode, streaming sessions -- message-based sessions are kept as
    recorded) and the resulting events are validated against the trace spec."""
    with open(path) as f:
        obj = json.load(f)
    rep = obj["replay"]
    if isinstance(rep, dict) and "crash" in rep:
        # the recorder process died: run the same recording again on the current tree
        c = rep["crash"]
        out = chk.path("replay-crash.ndjson")
        record(c["family"], out, profile=c.get("profile", "release"), **c.get("args", {}))
        last = ""
        for ln in open(out):
            if ln.strip():
                last = ln
        if '"ProcessCrash"' in last or os.path.exists(out + ".hang.json"):
            print("VIOLATION property=%s replay=%s" % (chk.pid, path))
            return 1
        log("the recording completes on the current tree (no crash)")
        return 0
    sess = rep.get("session") or rep.get("session_tail") or []
    profile = profile or rep.get("profile") or "release"
    tp0 = chk.path("replay-recorded.ndjson")
    with open(tp0, "w") as f:
        for e in sess:
            f.write(json.dumps(e) + "\n")
    tp = chk.path("replay.ndjson")
    b = harness_bin(profile)
    p = sh([b, "rerun", "events", "in=" + tp0, "out=" + tp], check=False, timeout=600)
    if p.returncode != 0:
        raise ToolError("rerun failed: " + p.stdout[-2000:])
    if prefix:
        body = open(tp).read()
        with open(tp, "w") as f:
            f.write(json.dumps(prefix) + "\n" + body)
    r = tv(module, cfg, tp, reset_events=reset_events, prefix_events=prefix_events, shards=1, tag=chk.pid + "-replay")
    if r["rejects"]:
        print("VIOLATION property=%s replay=%s" % (chk.pid, path))
        return 1
    log("replay accepted by the specification (no violation on the current tree)")
    return 0


def corrupt_one_field(trace_path, out_path, mutate):
    """selftest helper: copy a trace, corrupting one event with `mutate(obj) -> bool`."""
    done = False
    with open(trace_path) as f, open(out_path, "w") as g:
        for ln in f:
            if not done and ln.strip():
                o = json.loads(ln)
                if mutate(o):
                    done = True
                    ln = json.dumps(o) + "\n"
            g.write(ln)
    if not done:
        raise ToolError("selftest: no event could be corrupted in " + trace_path)
