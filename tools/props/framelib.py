"""Shared pieces of the frame-level checks (C03, C04, C05, C06, C13)."""
import json, os
from common import *


def replay_session(chk, path, module, cfg, reset_events=()):
    """Re-validate the session stored in a replay file against the trace spec."""
    with open(path) as f:
        obj = json.load(f)
    sess = obj["replay"]["session"]
    tp = chk.path("replay.ndjson")
    with open(tp, "w") as f:
        for e in sess:
            f.write(json.dumps(e) + "\n")
    r = tv(module, cfg, tp, reset_events=reset_events, shards=1, tag=chk.pid + "-replay")
    if r["rejects"]:
        print("VIOLATION property=%s replay=%s" % (chk.pid, path))
        return 1
    log("replay accepted by the specification (no violation on the current tree)")
    return 0


def corrupt_one_field(trace_path, out_path, mutate):
    """selftest helper: copy a trace, corrupting one event with `mutate(obj) -> bool`."""
    done = False
    with open(trace_path) as f, open(out_path, "w") as g:
        for ln in f:
            if not done and ln.strip():
                o = json.loads(ln)
                if mutate(o):
                    done = True
                    ln = json.dumps(o) + "\n"
            g.write(ln)
    if not done:
        raise ToolError("selftest: no event could be corrupted in " + trace_path)
