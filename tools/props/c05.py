"""C05 -- the stream scanner finds the first deliverable frame and skips only dead bytes."""
from common import *
from props.framelib import *

RULE = ("MC: the loop of next_msg_frame as a step machine refines the declarative ScanResult on every toy buffer "
        "(alphabet 3, all buffers up to length 8; dead-bytes, frame-at-mark, bounded, termination, iterator = WholeScan); "
        "TV: Scan events (one per next_msg_frame call, repeated on the unconsumed rest) and Iter events (MsgFrameIter runs "
        "+ three extra next() calls) on buffers from the piece grammar {frame, corrupted, truncated, stray 0xD3, long header, "
        "garbage, nested-in-corrupt, nested-in-valid, overlap, preamble run} and random bytes; non-trivial = buffer "
        "contains at least one 0xD3; distinct = distinct buffers")


def sgn(x):
    return "+" if x > 0 else ("-" if x < 0 else "=")


def sig(ev, d):
    e = d.get("expected", {})
    if ev["ev"] == "Scan":
        ef = e.get("frame", {})
        got = "frame" if ev["at"] >= 0 else "none"
        exp = "frame" if ef.get("at", 0) > 0 else "none"
        return "Scan got=%s expected=%s consumed%s" % (got, exp, sgn(ev["consumed"] - e.get("consumed", 0)))
    return "Iter frames%s consumed%s after=%s" % (sgn(len(ev.get("frames", [])) - len(e.get("frames", []))),
                                                sgn(ev.get("consumed", 0) - e.get("consumed", 0)), [x[0] for x in ev.get("after", [])])


def run(chk):
    q = chk.quick
    r0 = mc("MC_Scanner", "MC_Scanner.cfg" if q else "MC_Scanner_thorough.cfg", workers=8, dump_actions=q)
    chk.add_mc(r0)
    if q:
        chk.require_actions(r0, ["SkipByte", "Reject", "Stop", "Deliver", "Exhaust"])
    chk.add_mc(mc("MC_Frame", "MC_Frame.cfg", workers=8))
    chk.add_mc(mc("MC_Scanner", "MC_Scanner_A4.cfg", workers=8))
    chk.add_neg(mc("MC_Scanner", "NEG_C05_return.cfg", expect_fail=True))
    chk.add_neg(mc("MC_Scanner", "NEG_C05_skip.cfg", expect_fail=True))
    t = record("scan", chk.path("scan.ndjson"), n=1500 if q else 25000, seed=chk.seed)
    hang_violation(chk, t, "next_msg_frame / MsgFrameIter")
    r = tv("Trace_Scan", "Trace_Scan.cfg", t, shards=10, tag="C05")
    chk.add_tv("scan", r)
    report_rejects(chk, r, sig, lambda ev, d: "%s result differs from the declarative scanner result" % ev["ev"])
    # the same sessions in the overflow-checks profile (index / length arithmetic that only panics there)
    t2 = record("scan", chk.path("scan-relchk.ndjson"), profile="relchk", n=500 if q else 8000, seed=chk.seed + 13)
    hang_violation(chk, t2, "next_msg_frame / MsgFrameIter [overflow-checks]")
    r2 = tv("Trace_Scan", "Trace_Scan.cfg", t2, shards=10, tag="C05-relchk")
    chk.add_tv("scan[relchk]", r2)
    report_rejects(chk, r2, lambda ev, d: "[overflow-checks] " + sig(ev, d), lambda ev, d: "[overflow-checks] %s result differs from the declarative scanner result / panicked" % ev["ev"])
    bufs = set()
    kinds = {"deliver0": 0, "deliver_after_skip": 0, "stop_incomplete": 0, "exhaust": 0, "iter_multi": 0}
    tags = {}
    for ln, o in r["lines"]:
        if 0xD3 in o["buf"]:
            bufs.add(json.dumps(o["buf"]))
        if o["ev"] == "Scan":
            for tg in o.get("tags", []):
                tags[tg] = tags.get(tg, 0) + 1
            if o["at"] == 0: kinds["deliver0"] += 1
            elif o["at"] > 0: kinds["deliver_after_skip"] += 1
            elif o["consumed"] < len(o["buf"]): kinds["stop_incomplete"] += 1
            else: kinds["exhaust"] += 1
        elif len(o["frames"]) >= 2:
            kinds["iter_multi"] += 1
    for k, v in kinds.items():
        if v < 10 and not chk.violations:
            chk.vacuity("vacuity: branch %s exercised only %d times" % (k, v))
    chk.cov["distinct_nontrivial"] = len(bufs)
    return chk.finish("model_checking", RULE, extra={"branches": kinds, "pieces": tags})


def replay(chk, path):
    return replay_session(chk, path, "Trace_Scan", "Trace_Scan.cfg")


def selftest(chk):
    t = record("scan", chk.path("st.ndjson"), n=60, seed=chk.seed)
    def mut(o):
        if o["ev"] == "Scan" and o["at"] > 0:
            o["consumed"] -= 1
            return True
        return False
    corrupt_one_field(t, chk.path("st_bad.ndjson"), mut)
    r = tv("Trace_Scan", "Trace_Scan.cfg", chk.path("st_bad.ndjson"), shards=1, tag="C05-st")
    if len(r["rejects"]) != 1:
        raise ToolError("selftest: corrupted trace was not rejected exactly once")
    log("selftest ok")
    return 0
