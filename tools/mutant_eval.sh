#!/bin/bash
# mutant_eval.sh <mutant-dir> <worktree> <check ids...>
#  1. confirms the sub-agent's claims in its scratch worktree (demo passes unchanged, fails changed; suite passes changed)
#  2. runs the listed checks against a sandbox copy of /verif bound to a scratch worktree of /repo with the patch applied
#     (so development in /verif and /repo can go on meanwhile).  Results: <mutant-dir>/eval.txt
set -u
M=$1; WT=$2; shift 2
LOG=$M/eval.txt
ER=/tmp/mut/evalrepo; EV=/tmp/mut/evalverif
echo "== $(date) $M" > $LOG
# never fall through to the caller's directory: the clean-up below runs `git checkout -- .`
[ -d "$WT/.git" ] || [ -f "$WT/.git" ] || { echo "worktree $WT missing" >> $LOG; echo "== done" >> $LOG; exit 3; }
cd $WT && git checkout -q -- . && rm -f tests/demo.rs
# how the demonstration is run: demo.sh if delivered, else tests/demo.rs (DEMO_FLAGS, e.g. "--features serde"; DEMO_DEVDEP adds a dev-dependency)
rundemo() {
  if [ -f $M/demo.sh ]; then bash $M/demo.sh >/dev/null 2>&1; return $?; fi
  cp $M/demo.rs tests/demo.rs
  if [ -n "${DEMO_DEVDEP:-}" ] && ! grep -q "dev-dependencies" Cargo.toml; then printf '\n[dev-dependencies]\n%s\n' "$DEMO_DEVDEP" >> Cargo.toml; fi
  cargo test --offline ${DEMO_FLAGS:-} --test demo >/dev/null 2>&1
}
if rundemo; then echo "demo_unchanged: pass" >> $LOG; else echo "demo_unchanged: FAIL" >> $LOG; fi
git checkout -q -- . 2>/dev/null
if git apply $M/patch.diff; then
  if rundemo; then echo "demo_changed: PASS (not a mutant)" >> $LOG; else echo "demo_changed: fail" >> $LOG; fi
  rm -f tests/demo.rs; git checkout -q -- Cargo.toml 2>/dev/null; git apply $M/patch.diff 2>/dev/null
  R=$(cargo test --workspace --no-fail-fast --offline 2>&1 | grep -E '^test result' | awk '{p+=$4; f+=$6} END {print "passed",p,"failed",f}')
  echo "suite_changed: $R" >> $LOG
else
  echo "patch does not apply in worktree" >> $LOG
fi
git checkout -q -- . ; rm -f tests/demo.rs
# sandbox
[ -d $ER ] || git -C /repo worktree add -q --detach $ER HEAD
git -C $ER checkout -q --detach $(git -C /repo rev-parse HEAD) 2>/dev/null; git -C $ER checkout -q -- .
mkdir -p $EV && rsync -a --delete --exclude work --exclude .git --exclude replays --exclude evidence /verif/ $EV/
sed -i "s#path = \"/repo\"#path = \"$ER\"#" $EV/harness/Cargo.toml $EV/probe/Cargo.toml
cp -n /repo/Cargo.lock $ER/Cargo.lock 2>/dev/null
if git -C $ER apply $M/patch.diff; then
  for c in "$@"; do
    OUT=$(cd $EV && VERIF_REPO=$ER bin/check $c 2>&1); RC=$?
    echo "check $c rc=$RC $(echo "$OUT" | grep -c '^VIOLATION') violation lines" >> $LOG
    echo "$OUT" | grep -E '^VIOLATION|TOOL ERROR|-> ' | head -6 | cut -c1-300 >> $LOG
  done
  git -C $ER checkout -q -- .
else
  echo "patch does not apply to the sandbox repo" >> $LOG
fi
echo "== done" >> $LOG
