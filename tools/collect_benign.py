#!/usr/bin/env python3
"""Copies the property-preserving changes used for the false-alarm measurement from the sub-agents' scratch output
(/tmp/mut/out-B<k>/b<i>) into /verif/benign/B<k>-b<i>/ (patch.diff, meta.json, eval logs) and prints the table for DESIGN.md."""
import json, os, re, shutil, glob
SRC = "/tmp/mut"
DST = "/verif/benign"
rows = []
for d in sorted(glob.glob(SRC + "/out-B*/b*")):
    if not os.path.isdir(d) or not os.path.exists(d + "/patch.diff"):
        continue
    logs = ""
    for f in ("eval.txt", "direct.txt"):
        if os.path.exists(d + "/" + f):
            logs += open(d + "/" + f).read() + "\n"
    if not logs:
        continue
    name = "%s-%s" % (re.search(r"out-(B\d+)/", d).group(1), os.path.basename(d))
    out = os.path.join(DST, name)
    os.makedirs(out, exist_ok=True)
    shutil.copy(d + "/patch.diff", out + "/patch.diff")
    meta = {}
    try:
        meta = json.load(open(d + "/meta.json"))
    except Exception:
        pass
    checks = re.findall(r"check (C\d+) rc=(\d+) (\d+) violation", logs)
    quiet = sorted(set(c for c, rc, n in checks if rc == "0"))
    alarms = sorted(set(c for c, rc, n in checks if rc == "1"))
    errs = sorted(set(c for c, rc, n in checks if rc not in ("0", "1")))
    suite = re.search(r"suite_changed: (.*)", logs)
    meta_out = {"what_changed": meta.get("what_changed", ""), "observable_difference": meta.get("observable_difference", ""),
                "why_properties_hold": meta.get("why_properties_hold", ""), "existing_suite_with_change": suite.group(1) if suite else meta.get("existing_tests", ""),
                "checks_quiet": quiet, "checks_that_alarmed_in_some_run": alarms, "tool_errors": errs,
                "note": "runs are listed in eval.txt; an alarm in an early run that is quiet in a later run was a false alarm that has been corrected (see DESIGN.md)"}
    json.dump(meta_out, open(out + "/meta.json", "w"), indent=1)
    open(out + "/eval.txt", "w").write(logs)
    rows.append((name, (meta.get("what_changed", "") or "")[:120].replace("|", "/").replace("\n", " "), quiet, alarms, errs))
print("| change | what it does | checks run, quiet | alarmed in an earlier run (corrected) |")
print("|---|---|---|---|")
for name, what, quiet, alarms, errs in rows:
    print("| %s | %s | %s | %s |" % (name, what, ", ".join(quiet) or "-", ", ".join(alarms + ["(tool error: %s)" % e for e in errs]) or "-"))
