#!/usr/bin/env python3
"""Re-collects /verif/seeded and /verif/benign from the scratch outputs and rewrites the two tables in DESIGN.md."""
import re, subprocess
mt = subprocess.run(["python3", "/verif/tools/collect_seeded.py"], capture_output=True, text=True, check=True).stdout
bt = subprocess.run(["python3", "/verif/tools/collect_benign.py"], capture_output=True, text=True, check=True).stdout
s = open("/verif/DESIGN.md").read()
s = re.sub(r"<!-- MUTANT_TABLE_BEGIN -->.*?<!-- MUTANT_TABLE_END -->", lambda m: "<!-- MUTANT_TABLE_BEGIN -->\n" + mt + "<!-- MUTANT_TABLE_END -->", s, flags=re.S)
s = re.sub(r"<!-- BENIGN_TABLE_BEGIN -->.*?<!-- BENIGN_TABLE_END -->", lambda m: "<!-- BENIGN_TABLE_BEGIN -->\n" + bt + "<!-- BENIGN_TABLE_END -->", s, flags=re.S)
open("/verif/DESIGN.md", "w").write(s)
print("seeded rows", mt.count("\n") - 2, "benign rows", bt.count("\n") - 2)
