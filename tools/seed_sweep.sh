#!/bin/bash
# seed_sweep.sh <seeds...>: runs every quick check on the unchanged tree with other seeds, in a scratch copy of /verif
# (false-alarm hunting).  Results: /tmp/mut/seed_sweep.txt
SV=/tmp/mut/seedverif
mkdir -p $SV && rsync -a --delete --exclude work --exclude .git --exclude replays --exclude evidence /verif/ $SV/
cd $SV
for seed in "$@"; do
  for c in C01 C02 C03 C04 C05 C06 C07 C08 C09 C10 C11 C12 C13 C14 C15 C16 C17 C18 C19 C20; do
    S=$(date +%s)
    OUT=$(VERIF_SEED=$seed bin/check $c 2>&1); RC=$?
    echo "seed=$seed $c rc=$RC $(( $(date +%s) - S ))s $(echo "$OUT" | grep -E '^VIOLATION|TOOL ERROR' | head -2 | cut -c1-200 | tr '\n' ' ')" >> /tmp/mut/seed_sweep.txt
  done
done
echo "sweep done $@" >> /tmp/mut/seed_sweep.txt
