#!/usr/bin/env python3
"""Extraction of structure knowledge from /repo (regenerated on every check):

  src/df/dfs.rs        df! invocations            -> field table
  src/msg/msg*.rs      msg!/frag_vec!/... macros  -> message layouts (list nodes, count fields, capacities)
  src/msg/mod.rs       capacity constants, cfg(any(...)) gate lists
  Cargo.toml           features

Outputs: /verif/spec/Fields.tla, /verif/spec/Layouts.tla, /verif/spec/Gates.tla,
         /verif/harness/src/generated.rs, /verif/work/gen/*.json

The macros are regular, so this is a pattern scanner, not a Rust parser; when a file no longer
matches the expected shape the extractor fails (exit 2, tool error) rather than guessing.
Extracted tables are structure knowledge, never the oracle of a listed property."""
import json, os, re, sys

V = os.path.dirname(os.path.dirname(os.path.abspath(__file__)))
REPO = os.environ.get("VERIF_REPO", "/repo")


class ExtractError(Exception):
    pass


def strip_comments(src):
    out = []
    for ln in src.split("\n"):
        s = ln.strip()
        if s.startswith("//"):
            continue
        # trailing comments
        i = ln.find("//")
        if i >= 0 and '"' not in ln[:i]:
            ln = ln[:i]
        out.append(ln)
    return "\n".join(out)


IT = {"U8": ("u", 8), "U16": ("u", 16), "U32": ("u", 32), "U64": ("u", 64),
      "I8": ("s", 8), "I16": ("s", 16), "I32": ("s", 32), "I64": ("s", 64),
      "SM8": ("sm", 8), "SM16": ("sm", 16), "SM32": ("sm", 32), "SM64": ("sm", 64)}


def pyeval(expr):
    e = expr.replace("_", "")
    e = re.sub(r"0x([0-9a-fA-F]+)", lambda m: str(int(m.group(1), 16)), e)
    if not re.fullmatch(r"[0-9eE\.\+\-\*/\(\) ]+", e):
        raise ExtractError("unexpected expression: " + expr)
    return eval(e)


def fields():
    src = strip_comments(open(os.path.join(REPO, "src/df/dfs.rs")).read())
    out = []
    for m in re.finditer(r"\bdf!\s*\((.*?)\)\s*;", src, re.S):
        kv = {}
        for part in m.group(1).split("\n"):
            part = part.strip().rstrip(",")
            if not part:
                continue
            if ":" not in part:
                raise ExtractError("df!: cannot read line %r" % part)
            k, v = part.split(":", 1)
            kv[k.strip()] = v.strip()
        for need in ("id", "dt", "it", "len"):
            if need not in kv:
                raise ExtractError("df! without %s: %s" % (need, kv))
        if kv["it"] not in IT:
            raise ExtractError("unknown it %s in %s" % (kv["it"], kv["id"]))
        kind, carrier = IT[kv["it"]]
        f = {"id": kv["id"], "dt": kv["dt"], "it": kv["it"], "kind": kind, "carrier": carrier, "w": int(kv["len"]),
             "res": kv.get("res"), "bias": kv.get("bias"), "round": kv.get("round") == "true", "cap": kv.get("cap"),
             "inv": None, "ftype": kv["dt"] if kv["dt"] in ("f32", "f64") else "int"}
        if "inv" in kv:
            f["inv"] = int(pyeval(kv["inv"]))
        elif "ord" not in kv:
            raise ExtractError("df! %s has neither inv nor ord" % kv["id"])
        f["res_val"] = float(pyeval(f["res"])) if f["res"] else 1.0
        f["bias_val"] = float(pyeval(f["bias"])) if f["bias"] else 0.0
        if f["w"] < 1 or f["w"] > carrier:
            raise ExtractError("df! %s: width %d outside carrier %d" % (f["id"], f["w"], carrier))
        out.append(f)
    if len(out) < 250:
        raise ExtractError("only %d df! invocations found" % len(out))
    ids = [f["id"] for f in out]
    if len(set(ids)) != len(ids):
        raise ExtractError("duplicate df ids")
    return out


def consts():
    src = open(os.path.join(REPO, "src/msg/mod.rs")).read()
    c = {}
    for m in re.finditer(r"pub const (\w+): usize = (\d+);", src):
        c[m.group(1)] = int(m.group(2))
    return c


# ---------------------------------------------------------------- message layouts

def macro_blocks(src, name):
    """all `name!( ... );` invocations (balanced parentheses)"""
    out = []
    for m in re.finditer(r"\b%s!\s*\(" % name, src):
        i = m.end()
        depth = 1
        while depth and i < len(src):
            if src[i] == "(":
                depth += 1
            elif src[i] == ")":
                depth -= 1
            i += 1
        out.append(src[m.end():i - 1])
    return out


def kv_of(block):
    """top-level `key: value,` pairs of a macro body (values may hold brackets)"""
    kv = {}
    depth = 0
    cur = ""
    parts = []
    for ch in block:
        if ch in "([":
            depth += 1
        elif ch in ")]":
            depth -= 1
        if ch == "," and depth == 0:
            parts.append(cur)
            cur = ""
        else:
            cur += ch
    if cur.strip():
        parts.append(cur)
    last = None
    for p in parts:
        p = p.strip()
        if not p:
            continue
        if ":" not in p:
            if last is None:
                raise ExtractError("macro body: cannot read %r" % p)
            kv[last] += ", " + p          # `vec_field: name, frag_id,`
            continue
        k, v = p.split(":", 1)
        last = k.strip()
        kv[last] = v.strip()
    return kv


def pairs(v):
    return re.findall(r"\(\s*(\w+)\s*,\s*(\w+)\s*\)", v)


def layouts(fdefs, cst):
    fw = {f["id"]: f for f in fdefs}
    frags = {}   # id -> node
    msgs = {}
    mdir = os.path.join(REPO, "src/msg")
    files = sorted(f for f in os.listdir(mdir) if re.fullmatch(r"(msg\d+|msm\w+_sat)\.rs", f))
    for fn in files:
        src = strip_comments(open(os.path.join(mdir, fn)).read())
        for b in macro_blocks(src, "msg"):
            kv = kv_of(b)
            frags[kv["id"]] = {"kind": "struct", "fields": pairs(kv["fields"])}
        for b in macro_blocks(src, "msg_len_middle"):
            kv = kv_of(b)
            vf = [x.strip() for x in kv["vec_field"].split(",")]
            frags[kv["id"]] = {"kind": "struct_len_middle", "fields1": pairs(kv["fields1"]), "len_field": kv["len_field"],
                               "fields2": pairs(kv["fields2"]), "vec_name": vf[0], "vec_frag": vf[1]}
        for b in macro_blocks(src, "frag_vec"):
            kv = kv_of(b)
            frags[kv["id"]] = {"kind": "vec", "elem": kv["frag_id"], "cap": cst[kv["cap_name"]]}
        for b in macro_blocks(src, "frag_vec_with_len"):
            kv = kv_of(b)
            frags[kv["id"]] = {"kind": "vec_with_len", "elem": kv["frag_id"], "cap": cst[kv["cap"]], "len_bits": int(kv["len_bits"])}
        for b in macro_blocks(src, "frag_grid16p"):
            kv = kv_of(b)
            frags[kv["id"]] = {"kind": "grid16", "elem": kv["frag_id"]}
        for b in macro_blocks(src, "msm_sat_frag"):
            kv = kv_of(b)
            frags[kv["id"]] = {"kind": "msm_sat", "fields": pairs(kv["fields"])}
        for b in macro_blocks(src, "msm_sig_frag"):
            kv = kv_of(b)
            frags[kv["id"]] = {"kind": "msm_sig", "gnss": kv["gnss"], "fields": pairs(kv["fields"])}
        for b in macro_blocks(src, "msm_data_seg_frag"):
            kv = kv_of(b)
            frags[kv["id"]] = {"kind": "msm_seg", "gnss": kv["gnss"], "sat": kv["sat_id"], "sig": kv["sig_id"]}
    # string fields with length prefix (dfs.rs)
    dsrc = strip_comments(open(os.path.join(REPO, "src/df/dfs.rs")).read())
    for b in macro_blocks(dsrc, "df_88591_string_with_len"):
        kv = kv_of(b)
        frags[kv["id"]] = {"kind": "string_with_len", "cap": cst[kv["cap"]], "len_bits": int(kv["len_bits"])}
    for hand in ("df_msg1029_utf8_str", "df_msg1059_biases", "df_msg1065_biases", "df_msg1230_biases"):
        frags[hand] = {"kind": "hand", "name": hand}

    def bits_of(fid, stack=()):
        """fixed bit width of a fragment, or None when it is variable"""
        if fid in fw:
            return fw[fid]["w"]
        n = frags.get(fid)
        if n is None:
            raise ExtractError("unknown fragment " + fid)
        if n["kind"] == "struct":
            tot = 0
            for _, f in n["fields"]:
                b = bits_of(f)
                if b is None:
                    return None
                tot += b
            return tot
        if n["kind"] == "grid16":
            b = bits_of(n["elem"])
            return None if b is None else 16 * b
        return None

    # message table: number -> layout summary with list nodes
    table = []
    for mfile in files:
        m = re.fullmatch(r"msg(\d+)\.rs", mfile)
        if not m:
            continue
        num = int(m.group(1))
        top = "msg%d" % num
        if top not in frags:
            raise ExtractError("no top-level fragment for " + top)
        lists = []
        hands = []

        def walk(fid, off, path):
            """returns offset after the fragment, or None when variable; records list nodes"""
            if fid in fw:
                return None if off is None else off + fw[fid]["w"]
            n = frags[fid]
            k = n["kind"]
            if k == "struct":
                for name, f in n["fields"]:
                    off = walk(f, off, path + [name])
                return off
            if k == "struct_len_middle":
                for name, f in n["fields1"]:
                    off = walk(f, off, path + [name])
                lf = fw[n["len_field"]]
                count_off = off
                off = None if off is None else off + lf["w"]
                for name, f in n["fields2"]:
                    off = walk(f, off, path + [name])
                vec = frags[n["vec_frag"]]
                eb = bits_of(vec["elem"])
                lists.append({"path": ".".join(path + [n["vec_name"]]), "count_off": count_off, "count_bits": lf["w"], "cap": vec["cap"],
                              "elem_bits": eb, "elems_off": off, "kind": "len_middle", "elem": vec["elem"]})
                return None
            if k == "vec_with_len":
                eb = bits_of(n["elem"])
                lists.append({"path": ".".join(path), "count_off": off, "count_bits": n["len_bits"], "cap": n["cap"], "elem_bits": eb,
                              "elems_off": None if off is None else off + n["len_bits"], "kind": "vec_with_len", "elem": n["elem"]})
                # nested lists inside a variable-size element (1302)
                if eb is None:
                    walk(n["elem"], None, path + ["[]"])
                return None
            if k == "string_with_len":
                lists.append({"path": ".".join(path), "count_off": off, "count_bits": n["len_bits"], "cap": n["cap"], "elem_bits": 8,
                              "elems_off": None if off is None else off + n["len_bits"], "kind": "string", "elem": "byte"})
                return None
            if k == "grid16":
                b = bits_of(n["elem"])
                return None if (off is None or b is None) else off + 16 * b
            if k in ("hand", "msm_seg"):
                hands.append({"name": n.get("name", "msm_seg"), "off": off, "path": ".".join(path)})
                return None
            if k in ("msm_sat", "msm_sig", "vec"):
                return None
            raise ExtractError("unhandled node kind " + k)

        end = walk(top, 12, [])
        # decode shape: what the outcome class of a CRC-valid frame of this number depends on
        top_n = frags[top]
        shape = {"kind": "other", "fixedbits": -1, "satbits": -1, "sigbits": -1, "gnss": ""}
        seg = [f for _, f in top_n.get("fields", []) if frags.get(f, {}).get("kind") == "msm_seg"]
        if end is not None and not lists and not hands:
            shape = {"kind": "fixed", "fixedbits": end, "satbits": -1, "sigbits": -1, "gnss": ""}
        elif seg and top_n.get("fields", [])[-1][1] == seg[0]:
            sg = frags[seg[0]]
            satb = sum(fw[f]["w"] for _, f in frags[sg["sat"]]["fields"])
            sigb = sum(fw[f]["w"] for _, f in frags[sg["sig"]]["fields"])
            shape = {"kind": "msm", "fixedbits": hands[0]["off"] if hands and hands[0]["off"] is not None else -1, "satbits": satb, "sigbits": sigb, "gnss": sg["gnss"]}
        elif len(lists) == 1 and lists[0]["count_off"] is not None and lists[0]["elem_bits"] is not None and lists[0]["kind"] in ("len_middle", "vec_with_len") and not hands:
            shape = {"kind": "list", "fixedbits": lists[0]["elems_off"], "satbits": -1, "sigbits": -1, "gnss": ""}
        table.append({"number": num, "lists": lists, "hands": hands, "fixed_bits": end, "shape": shape,
                      "kind": frags[top]["kind"], "msm": any(frags.get(f, {}).get("kind") == "msm_seg" for _, f in frags[top].get("fields", []))})
    if len(table) < 100:
        raise ExtractError("only %d messages found" % len(table))
    return frags, table


def gates():
    src = open(os.path.join(REPO, "src/msg/mod.rs")).read()
    g = {}
    for m in re.finditer(r"#\[cfg\(any\((.*?)\)\)\]\s*mod (\w+);", src, re.S):
        g[m.group(2)] = sorted(int(x) for x in re.findall(r'feature = "msg(\d+)"', m.group(1)))
    uses = {}
    mdir = os.path.join(REPO, "src/msg")
    for fn in sorted(os.listdir(mdir)):
        m = re.fullmatch(r"msg(\d+)\.rs", fn)
        if m:
            s = open(os.path.join(mdir, fn)).read()
            uses[int(m.group(1))] = sorted(set(re.findall(r"use super::(\w+)::\*;", s)))
    includes = sorted(int(a) for a, b in re.findall(r'include_msg!\(msg(\d+), "msg(\d+)"\);', src))
    inc_pairs = re.findall(r'include_msg!\(msg(\d+), "msg(\d+)"\);', src)
    msrc = open(os.path.join(REPO, "src/msg/message.rs")).read()
    rows = re.findall(r'"msg(\d+)": Msg(\d+)\(msg(\d+)\) = (\d+)', msrc)
    cargo = open(os.path.join(REPO, "Cargo.toml")).read()
    # all_msgs, resolved through group features (all_msgs = ["msm", ...], msm = ["msm_gps", ...], ...): the message features it switches on
    fdecl = {m.group(1): re.findall(r'"([^"]+)"', m.group(2)) for m in re.finditer(r"^([A-Za-z0-9_\-]+)\s*=\s*\[(.*?)\]", cargo, re.S | re.M)}
    seen, todo, allm = set(), ["all_msgs"], set()
    while todo:
        f = todo.pop()
        if f in seen:
            continue
        seen.add(f)
        mm = re.fullmatch(r"msg(\d+)", f)
        if mm:
            allm.add(int(mm.group(1)))
            continue        # what a message feature itself enables is reported under "chained"
        todo += [x for x in fdecl.get(f, []) if not x.startswith("dep:") and "/" not in x]
    allm = sorted(allm)
    feats = sorted(int(x) for x in re.findall(r"^msg(\d+)\s*=\s*\[\s*\]", cargo, re.M))
    # message features that enable something else (msgNNNN = [...non-empty...]) are not "selectable on their own"
    chained = sorted(int(x) for x in re.findall(r"^msg(\d+)\s*=\s*\[\s*[^\]\s][^\]]*\]", cargo, re.M))
    return {"gates": g, "uses": uses, "includes": includes, "include_pairs": [[int(a), int(b)] for a, b in inc_pairs],
            "rows": [[int(x) for x in r] for r in rows], "all_msgs": allm, "features": feats, "chained": chained}


# ---------------------------------------------------------------- emitters

def bits(v, w):
    v &= (1 << w) - 1
    return "<<" + ", ".join(str((v >> (w - 1 - i)) & 1) for i in range(w)) + ">>"


def bitlen(x):
    x = int(abs(x))
    return x.bit_length()


def emit_fields_tla(fdefs, path):
    rows = []
    for f in fdefs:
        inv = bits(f["inv"], f["w"]) if f["inv"] is not None else "<<>>"
        bias_units = abs(f["bias_val"] / f["res_val"]) if f["res_val"] else 0
        rows.append('  [id |-> "%s", w |-> %d, kind |-> "%s", carrier |-> %d, ftype |-> "%s", hasinv |-> %s, inv |-> %s, round |-> %s, scaled |-> %s, biasbits |-> %d]'
                    % (f["id"], f["w"], f["kind"], f["carrier"], f["ftype"], "TRUE" if f["inv"] is not None else "FALSE", inv,
                       "TRUE" if f["round"] else "FALSE", "TRUE" if (f["res"] or f["bias"]) else "FALSE", bitlen(bias_units) ))
    s = ("------------------------------- MODULE Fields -------------------------------\n"
         "(* GENERATED by tools/extract.py from /repo/src/df/dfs.rs -- do not edit.       *)\n"
         "(* One record per df! invocation: width, integer kind, carrier, float type,     *)\n"
         "(* the 'absent' pattern (inv) as a w-bit sequence, whether encode rounds,       *)\n"
         "(* whether the field is scaled, and the bit length of |bias/res|.               *)\n"
         "EXTENDS Integers\n"
         "FieldTable == <<\n" + ",\n".join(rows) + "\n>>\n"
         "=============================================================================\n")
    write_if_changed(path, s)


def emit_layouts_tla(table, path):
    rows = []
    for t in table:
        for li, L in enumerate(t["lists"]):
            rows.append('  [number |-> %d, path |-> "%s", kind |-> "%s", countoff |-> %d, countbits |-> %d, cap |-> %d, elembits |-> %d, elemsoff |-> %d]'
                        % (t["number"], L["path"], L["kind"], -1 if L["count_off"] is None else L["count_off"], L["count_bits"], L["cap"],
                           -1 if L["elem_bits"] is None else L["elem_bits"], -1 if L["elems_off"] is None else L["elems_off"]))
    hrows = []
    for t in table:
        for h in t.get("hands", []):
            hrows.append('  [number |-> %d, name |-> "%s", off |-> %d]' % (t["number"], h["name"], -1 if h["off"] is None else h["off"]))
    s = ("------------------------------ MODULE Layouts ------------------------------\n"
         "(* GENERATED by tools/extract.py from /repo/src/msg/msg*.rs -- do not edit.    *)\n"
         "(* One record per count-prefixed list or string: payload bit offset and width *)\n"
         "(* of the count field, capacity, element width, offset of the first element   *)\n"
         "(* (-1: not at a fixed position / variable).                                  *)\n"
         "EXTENDS Integers\n"
         "ListTable == <<\n" + ",\n".join(rows) + "\n>>\n"
         "(* decode shape per message number: fixed (reads exactly fixedbits), list (one count-prefixed list of fixed-size elements, last), *)\n"
         "(* msm (header of fixedbits, then masks and rows of satbits / sigbits per row), other                                              *)\n"
         "MsgTable == <<\n" + ",\n".join('  [number |-> %d, kind |-> "%s", fixedbits |-> %d, satbits |-> %d, sigbits |-> %d, gnss |-> "%s"]' % (t["number"], t["shape"]["kind"], t["shape"]["fixedbits"], t["shape"]["satbits"], t["shape"]["sigbits"], t["shape"]["gnss"]) for t in table) + "\n>>\n"
         "(* payload bit offset of hand-written fragments (text, bias lists) and MSM data segments *)\n"
         "HandTable == <<\n" + ",\n".join(hrows) + "\n>>\n"
         "=============================================================================\n")
    write_if_changed(path, s)


def emit_gates_tla(g, path):
    def st(xs):
        return "{" + ", ".join(str(x) for x in xs) + "}"
    gl = ",\n".join('  [module |-> "%s", gate |-> %s]' % (k, st(v)) for k, v in sorted(g["gates"].items()))
    ul = ",\n".join('  [number |-> %d, uses |-> {%s}]' % (k, ", ".join('"%s"' % u for u in v)) for k, v in sorted(g["uses"].items()))
    s = ("------------------------------- MODULE Gates -------------------------------\n"
         "(* GENERATED by tools/extract.py from Cargo.toml, src/msg/mod.rs, src/msg/message.rs, src/msg/msg*.rs *)\n"
         "EXTENDS Integers\n"
         "Features == %s\nAllMsgs == %s\nIncludes == %s\nChained == %s\n" % (st(g["features"]), st(g["all_msgs"]), st(g["includes"]), st(g["chained"]))
         + "IncludePairs == {%s}\n" % ", ".join("<<%d, %d>>" % (a, b) for a, b in g["include_pairs"])
         + "TableRows == {%s}\n" % ", ".join("<<%d, %d, %d, %d>>" % tuple(r) for r in g["rows"])
         + "GateList == <<\n" + gl + "\n>>\nUsesList == <<\n" + ul + "\n>>\n"
         "=============================================================================\n")
    write_if_changed(path, s)


def emit_rust(fdefs, path):
    lines = ["// GENERATED by /verif/tools/extract.py from /repo/src/df/dfs.rs -- do not edit.",
             "// Monomorphic access to every dfs::<id>::{encode, decode} through the cfg(rtcm_rs_verif) re-export.",
             "#![allow(clippy::all, unused_parens)]",
             "use crate::fieldlib::*;", "use rtcm_rs::verif::bit_value::*;", "use rtcm_rs::verif::dfs;", "",
             "pub fn field_table() -> Vec<FieldFns> {", "    vec!["]
    for f in fdefs:
        probe = "None"
        if f["ftype"] in ("f32", "f64"):
            F = f["ftype"]
            res = f["res"] or "1.0"
            bias = f["bias"] or "0.0"
            probe = ("Some(|k: i64, t: f64| {{ let res: {F} = {res}; let bias: {F} = {bias}; let x: {F} = ((k as {F}) + (t as {F})) * res + bias; "
                     "probe_generic::<{IT}, _, {F}>(x as f64, res as f64, FromReal::from_real(x as f64), {w}, |p| dfs::{id}::decode(p), |a, v| dfs::{id}::encode(a, v)) }})"
                     ).format(F=F, res=res, bias=bias, IT=f["it"], w=f["w"], id=f["id"])
        lines.append('        FieldFns {{ id: "{id}", w: {w}, kind: "{kind}", carrier: {carrier}, ftype: "{ftype}", has_inv: {hi}, inv: {inv}, round: {rnd}, '
                     'rt: |p| rt_generic(p, {w}, |par| dfs::{id}::decode(par), |a, v| dfs::{id}::encode(a, v)), probe: {probe} }},'
                     .format(id=f["id"], w=f["w"], kind=f["kind"], carrier=f["carrier"], ftype=f["ftype"], hi="true" if f["inv"] is not None else "false",
                             inv=(f["inv"] if f["inv"] is not None else 0), rnd="true" if f["round"] else "false", probe=probe))
    lines += ["    ]", "}", ""]
    write_if_changed(path, "\n".join(lines))


def write_if_changed(path, s):
    os.makedirs(os.path.dirname(path), exist_ok=True)
    if os.path.exists(path) and open(path).read() == s:
        return
    with open(path, "w") as f:
        f.write(s)


def pinned_checks(fdefs, table, cst):
    """facts from the standard that cross-check the extractor (disagreement = tool error)"""
    fw = {f["id"]: f for f in fdefs}
    t = {x["number"]: x for x in table}
    l1001 = t[1001]["lists"]
    if not (len(l1001) == 1 and l1001[0]["count_off"] == 55 and l1001[0]["count_bits"] == 5):
        raise ExtractError("pinned fact failed: 1001 count field at payload bit 55 width 5: %s" % l1001)
    if fw["df002"]["w"] != 12 or fw["df003"]["w"] != 12:
        raise ExtractError("pinned fact failed: DF002/DF003 are 12 bits")
    l1057 = t[1057]["lists"]
    if not (len(l1057) == 1 and l1057[0]["count_bits"] == 6 and l1057[0]["elem_bits"] == 135):
        raise ExtractError("pinned fact failed: 1057 satellite block is 135 bits behind a 6-bit count: %s" % l1057)
    h1074 = t[1074]["hands"]
    if not (len(h1074) == 1 and h1074[0]["off"] == 73):
        raise ExtractError("pinned fact failed: MSM header is 73 bits before the satellite mask: %s" % h1074)


def run():
    fdefs = fields()
    cst = consts()
    frags, table = layouts(fdefs, cst)
    g = gates()
    pinned_checks(fdefs, table, cst)
    gen = os.path.join(V, "work", "gen")
    os.makedirs(gen, exist_ok=True)
    json.dump(fdefs, open(os.path.join(gen, "fields.json"), "w"), indent=0)
    json.dump(table, open(os.path.join(gen, "layouts.json"), "w"), indent=0)
    json.dump({k: (v if not isinstance(v, dict) else {str(a): b for a, b in v.items()}) for k, v in g.items()}, open(os.path.join(gen, "gates.json"), "w"), indent=0)
    emit_fields_tla(fdefs, os.path.join(V, "spec", "Fields.tla"))
    emit_layouts_tla(table, os.path.join(V, "spec", "Layouts.tla"))
    emit_gates_tla(g, os.path.join(V, "spec", "Gates.tla"))
    emit_rust(fdefs, os.path.join(V, "harness", "src", "generated.rs"))
    return fdefs, table, g


if __name__ == "__main__":
    try:
        fdefs, table, g = run()
    except ExtractError as e:
        print("EXTRACT ERROR:", e, file=sys.stderr)
        sys.exit(2)
    print("extracted %d fields, %d messages (%d list nodes), %d gate lists" % (
        len(fdefs), len(table), sum(len(t["lists"]) for t in table), len(g["gates"])))
