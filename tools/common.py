"""Shared plumbing for /verif checks: building the harness, running TLC (model checking,
behaviour generation, trace validation), known-findings filtering, evidence and verdicts.

Exit codes of a check: 0 property held on everything explored; 1 violation (a line
`VIOLATION property=<id> replay=<path>` was printed); 2 tool error / timeout (never a verdict).
"""
import json, os, re, shutil, subprocess, sys, time, hashlib, concurrent.futures

VERIF = os.path.dirname(os.path.dirname(os.path.abspath(__file__)))
REPO = os.environ.get("VERIF_REPO", "/repo")      # overridden only by the mutant-evaluation sandbox
SPEC = os.path.join(VERIF, "spec")
WORK = os.path.join(VERIF, "work")
HARNESS = os.path.join(VERIF, "harness")
EVID = os.path.join(VERIF, "evidence")
REPLAYS = os.path.join(VERIF, "replays")
KNOWN = os.path.join(VERIF, "known_findings.json")

TLC_CP = "/opt/veriftools/tla/tla2tools.jar:/opt/veriftools/tla/CommunityModules-deps.jar"


class ToolError(Exception):
    pass


def log(*a):
    print(*a, file=sys.stderr, flush=True)


def sh(cmd, cwd=None, env=None, timeout=None, check=True):
    e = dict(os.environ)
    if env:
        e.update(env)
    try:
        p = subprocess.run(cmd, cwd=cwd, env=e, timeout=timeout, stdout=subprocess.PIPE,
                           stderr=subprocess.STDOUT, text=True, errors="replace")
    except subprocess.TimeoutExpired as ex:
        raise ToolError("timeout after %ss: %s" % (timeout, " ".join(cmd[:6])))
    if check and p.returncode != 0:
        raise ToolError("command failed (%d): %s\n%s" % (p.returncode, " ".join(cmd[:8]), p.stdout[-4000:]))
    return p


# ------------------------------------------------------------------ harness

_built = {}


def harness_bin(profile="release"):
    """Build (incrementally) the conformance harness against /repo's current working tree."""
    if profile in _built:
        return _built[profile]
    os.makedirs(WORK, exist_ok=True)
    lock = os.path.join(HARNESS, "Cargo.lock")
    if not os.path.exists(lock):
        shutil.copy(os.path.join(REPO, "Cargo.lock"), lock)
    t0 = time.time()
    env = {"CARGO_NET_OFFLINE": "true"}
    run_extractor()
    import fcntl
    with open(os.path.join(WORK, ".cargo-build.lock"), "w") as lk:
        fcntl.flock(lk, fcntl.LOCK_EX)
        p = sh(["cargo", "build", "--offline", "--profile", profile, "-q"], cwd=HARNESS, env=env, timeout=1500, check=False)
    if p.returncode != 0:
        raise ToolError("harness build failed (profile %s):\n%s" % (profile, p.stdout[-6000:]))
    b = os.path.join(WORK, "target", profile, "rtcm_conf")
    if not os.path.exists(b):
        raise ToolError("harness binary missing: " + b)
    log("[build] harness %s ready in %.1fs" % (profile, time.time() - t0))
    _built[profile] = b
    return b


_extracted = []


def run_extractor():
    """Regenerate Fields/Layouts/Gates.tla and harness/src/generated.rs from /repo's working tree."""
    if _extracted:
        return
    p = sh([sys.executable, os.path.join(VERIF, "tools", "extract.py")], check=False, timeout=120)
    if p.returncode != 0:
        raise ToolError("extractor failed: " + p.stdout[-2000:])
    _extracted.append(True)


def record(family, out, profile="release", timeout=1200, **kw):
    """Drive the real library and write an NDJSON trace."""
    b = harness_bin(profile)
    args = [b, "record", family, "out=" + out] + ["%s=%s" % (k, v) for k, v in kw.items()]
    if os.path.exists(out + ".hang.json"):
        os.remove(out + ".hang.json")
    p = sh(args, timeout=timeout, check=False)
    if p.returncode == 7 and os.path.exists(out + ".hang.json"):
        _drop_partial_last_line(out)
        return out          # the watchdog saw a call that did not return: the caller reports it
    if p.returncode < 0 or p.returncode in (132, 134, 135, 136, 139):
        # the process was killed by a signal (stack overflow, abort, illegal instruction): safe Rust harness code does not do
        # that by itself; the events flushed so far are kept and a final ProcessCrash event, which no trace specification
        # accepts, carries the command that reproduces it
        _drop_partial_last_line(out)
        n = sum(1 for _ in open(out))
        with open(out, "a") as f:
            f.write(json.dumps({"ev": "ProcessCrash", "family": family, "profile": profile, "returncode": p.returncode, "events_before": n,
                                "args": {k: str(v) for k, v in kw.items()}, "stderr": p.stdout[-400:]}) + "\n")
        log("[record] %s died with status %d after %d events: recorded as ProcessCrash" % (family, p.returncode, n))
        return out
    if p.returncode != 0:
        # the harness catches panics of the code under test; a crash of the harness itself is a tool error
        raise ToolError("harness record %s failed (%d): %s" % (family, p.returncode, p.stdout[-3000:]))
    return out


def _drop_partial_last_line(path):
    """After the watchdog killed the harness the trace may end in an unflushed, partial line (or be empty)."""
    if not os.path.exists(path):
        open(path, "w").close()
    with open(path, "rb") as f:
        data = f.read()
    lines = data.split(b"\n")
    good = []
    for ln in lines:
        if not ln.strip():
            continue
        try:
            json.loads(ln)
            good.append(ln)
        except Exception:
            break
    with open(path, "wb") as f:
        for ln in good:
            f.write(ln + b"\n")


def hang_violation(chk, trace_path, what):
    """The harness watchdog saw a library call that did not return: report it as a violation."""
    hang = trace_path + ".hang.json"
    if os.path.exists(hang):
        h = json.load(open(hang))
        chk.violation("hang: " + what, "a library call did not return within the watchdog limit (%s); input of %d bytes" % (what, len(h.get("input", []))),
                      {"input": h.get("input"), "what": what})
        return True
    return False


def replay_vectors(family, inp, out, profile="release", timeout=1200, **kw):
    b = harness_bin(profile)
    args = [b, "replay", family, "in=" + inp, "out=" + out] + ["%s=%s" % (k, v) for k, v in kw.items()]
    if os.path.exists(out + ".hang.json"):
        os.remove(out + ".hang.json")
    p = sh(args, timeout=timeout, check=False)
    if p.returncode == 7 and os.path.exists(out + ".hang.json"):
        _drop_partial_last_line(out)
        return out
    if p.returncode != 0:
        raise ToolError("harness replay %s failed (%d): %s" % (family, p.returncode, p.stdout[-3000:]))
    return out


# ------------------------------------------------------------------ TLC

def _tlc_cmd(module, cfg, metadir, workers, extra):
    return ["java", "-XX:+UseParallelGC", "-Xss1g"] + extra.get("jvm", []) + ["-cp", TLC_CP, "tlc2.TLC",
            "-workers", str(workers), "-metadir", metadir, "-cleanup", "-noGenerateSpecTE",
            "-config", os.path.join(SPEC, cfg)] + extra.get("tlc", []) + [os.path.join(SPEC, module + ".tla")]


_RE_STATES = re.compile(r"^(\d+) states generated, (\d+) distinct states found", re.M)


def mc(module, cfg, workers=8, timeout=1800, expect_fail=False, dump_actions=False, tag=None, jvm=None):
    """Model-check spec/<module>.tla with spec/<cfg>.  Returns dict(states, distinct, ok, out, actions).
    A failing MC run on the unchanged spec is a tool error (it says something about the model, not the
    code) unless expect_fail (NEG_* must-fail variants)."""
    tag = tag or cfg.replace(".cfg", "")
    metadir = os.path.join(WORK, "tlc", tag)
    shutil.rmtree(metadir, ignore_errors=True)
    os.makedirs(metadir, exist_ok=True)
    extra = {"jvm": jvm or ["-Xmx8g"], "tlc": []}
    dot = None
    if dump_actions:
        dot = os.path.join(metadir, "graph")
        extra["tlc"] = ["-dump", "dot,actionlabels", dot]
    t0 = time.time()
    for attempt in (1, 2):
        p = sh(_tlc_cmd(module, cfg, metadir, workers, extra), cwd=metadir, timeout=timeout, check=False)
        out = p.stdout
        finished = ("Model checking completed" in out) or ("is violated" in out) or ("is false" in out) or ("Error:" in out)
        if finished or attempt == 2:
            break
        # the JVM died without a verdict (e.g. memory pressure while other jobs run): once more, alone
        log("[mc] %s/%s ended without a verdict (exit %s), retrying" % (module, cfg, p.returncode))
        shutil.rmtree(metadir, ignore_errors=True)
        os.makedirs(metadir, exist_ok=True)
        time.sleep(5)
    m = _RE_STATES.search(out)
    res = {"states": int(m.group(1)) if m else 0, "distinct": int(m.group(2)) if m else 0,
           "ok": "Model checking completed. No error has been found." in out, "out": out,
           "wall": time.time() - t0, "cfg": cfg, "module": module, "actions": {}}
    if dot and os.path.exists(dot + ".dot"):
        acts = {}
        with open(dot + ".dot", errors="replace") as f:
            for line in f:
                for a in re.findall(r'label="([A-Za-z0-9_]+)"', line):
                    acts[a] = acts.get(a, 0) + 1
        res["actions"] = acts
        os.remove(dot + ".dot")
    shutil.rmtree(metadir, ignore_errors=True)
    if expect_fail:
        violated = ("is violated" in out) or ("Assumption" in out and "is false" in out) or ("Temporal properties were violated" in out)
        if not violated:
            raise ToolError("must-fail configuration %s/%s was NOT rejected by TLC:\n%s" % (module, cfg, out[-3000:]))
        res["ok"] = False
        return res
    if not res["ok"]:
        raise ToolError("model checking %s/%s failed:\n%s" % (module, cfg, out[-5000:]))
    log("[mc] %s/%s: %d states (%d distinct) in %.1fs" % (module, cfg, res["states"], res["distinct"], res["wall"]))
    return res


_RE_PRINT = re.compile(r'^<<"([A-Z]+)", (.*)>>$')


def _unescape_tla_string(s):
    # TLC prints strings with \" and \\ escapes
    return json.loads(s)


def gen(module, cfg, out_path, workers=1, timeout=1800, simulate=None, seed=None, tag=None, depth=100):
    """Run a generator spec; collect one JSON object per `<<"REPLAY", "<json>">>` line into out_path."""
    tag = tag or cfg.replace(".cfg", "")
    metadir = os.path.join(WORK, "tlc", tag)
    shutil.rmtree(metadir, ignore_errors=True)
    os.makedirs(metadir, exist_ok=True)
    extra = {"jvm": ["-Xmx8g"], "tlc": []}
    if simulate:
        extra["tlc"] = ["-simulate", "num=%d" % int(simulate), "-depth", str(depth)] + (["-seed", str(seed)] if seed is not None else [])
    t0 = time.time()
    p = sh(_tlc_cmd(module, cfg, metadir, workers, extra), cwd=metadir, timeout=timeout, check=False)
    n = 0
    with open(out_path, "w") as f:
        for line in p.stdout.splitlines():
            if line.startswith('<<"REPLAY", "'):
                body = line[len('<<"REPLAY", '):-2]
                f.write(_unescape_tla_string(body) + "\n")
                n += 1
    m = _RE_STATES.search(p.stdout)
    shutil.rmtree(metadir, ignore_errors=True)
    bad = "Error:" in p.stdout          # includes a violated generator invariant (e.g. GenChunkInv)
    if n == 0 or bad:
        raise ToolError("generator %s/%s produced %d behaviours:\n%s" % (module, cfg, n, p.stdout[-4000:]))
    log("[gen] %s/%s: %d behaviours in %.1fs" % (module, cfg, n, time.time() - t0))
    return {"behaviours": n, "states": int(m.group(1)) if m else 0, "distinct": int(m.group(2)) if m else 0, "out": p.stdout}


def _tv_one(module, cfg, trace_path, tag):
    metadir = os.path.join(WORK, "tlc", tag)
    shutil.rmtree(metadir, ignore_errors=True)
    os.makedirs(metadir, exist_ok=True)
    extra = {"jvm": ["-Xmx3g", "-Dtlc2.tool.queue.IStateQueue=StateDeque"], "tlc": []}
    p = sh(_tlc_cmd(module, cfg, metadir, 1, extra), cwd=metadir, env={"TRACE": trace_path}, timeout=3000, check=False)
    shutil.rmtree(metadir, ignore_errors=True)
    out = p.stdout
    m = _RE_STATES.search(out)
    states = int(m.group(1)) if m else 0
    if "Model checking completed. No error has been found." in out:
        return {"accepted": True, "states": states}
    um = re.search(r'^<<"UNMATCHED", (\d+), (".*")>>$', out, re.M)
    if um:
        return {"accepted": False, "states": states, "line": int(um.group(1)), "diag": _unescape_tla_string(um.group(2))}
    raise ToolError("trace validation %s on %s ended abnormally:\n%s" % (module, trace_path, out[-5000:]))


class LazyLines:
    """The events of one or more NDJSON trace files as (raw line, parsed object) pairs, parsed on demand:
    thorough-tier traces hold millions of events and must not be materialised in Python."""

    def __init__(self, paths, skip_events=()):
        self.paths = list(paths)
        self.skip = tuple(skip_events)

    def __iter__(self):
        for p in self.paths:
            with open(p) as f:
                for ln in f:
                    ln = ln.rstrip("\n")
                    if not ln.strip():
                        continue
                    e = _ev_of(ln)
                    if (self.skip and e in self.skip) or e in ("ProcessCrash", "UncaughtLibraryPanic"):
                        continue        # recorder-level events: reported through the rejection path, not part of the coverage data
                    yield ln, json.loads(ln)

    def __getitem__(self, sl):
        out = []
        stop = sl.stop if isinstance(sl, slice) else sl + 1
        for i, x in enumerate(self):
            if i >= stop:
                break
            out.append(x)
        return out[sl] if isinstance(sl, slice) else out[-1]

    def __add__(self, other):
        r = LazyLines(self.paths + other.paths, self.skip)
        return r


_RE_EV = re.compile(r'"ev"\s*:\s*"([A-Za-z0-9_]+)"')


def _ev_of(ln):
    m = _RE_EV.search(ln)
    return m.group(1) if m else ""


def tv(module, cfg, trace_path, reset_events=(), shards=10, max_rejects=8, tag=None, prefix_events=()):
    """Validate a recorded NDJSON trace against a trace spec.  The trace is cut into sessions (a session starts at each
    event named in reset_events; without reset events every line is a session), contiguous runs of sessions are dealt over
    `shards` single-worker TLC processes; a rejected session is reported, removed, and the rest of its shard is validated
    again, so one rejection does not hide later ones.  Streaming: the trace is never held in memory.
    Returns dict(events, sessions, states, rejects=[{event, diag, session, index_in_session}], lines=<lazy iterable>)."""
    tag = tag or module
    reset = set(reset_events)
    pref = set(prefix_events)
    prefix = []
    sess_len = []          # number of lines of each session, in file order (prefix lines excluded)
    with open(trace_path) as f:
        for ln in f:
            if not ln.strip():
                continue
            ev = _ev_of(ln) if (reset or pref) else ""
            if ev in pref:
                prefix.append(ln if ln.endswith("\n") else ln + "\n")
                continue
            if not reset or ev in reset or not sess_len:
                sess_len.append(1)
            else:
                sess_len[-1] += 1
    if not sess_len:
        if os.path.exists(trace_path + ".hang.json"):
            return {"events": 0, "sessions": 0, "states": 0, "rejects": [], "lines": LazyLines([trace_path])}
        raise ToolError("empty trace " + trace_path)
    total = sum(sess_len)
    nsh = max(1, min(shards, len(sess_len)))
    # contiguous buckets balanced by line count: bucket b holds sessions [bs[b], bs[b+1])
    bs, acc = [0], 0
    for i, n in enumerate(sess_len):
        acc += n
        if acc >= total * len(bs) / nsh and len(bs) < nsh and i + 1 < len(sess_len):
            bs.append(i + 1)
    bs.append(len(sess_len))
    nb = len(bs) - 1
    os.makedirs(os.path.join(WORK, "tlc"), exist_ok=True)
    paths = [os.path.join(WORK, "tlc", "%s-shard%d.ndjson" % (tag, b)) for b in range(nb)]
    # one streaming pass writes every bucket file
    outs = [open(p, "w") for p in paths]
    for o in outs:
        o.writelines(prefix)
    with open(trace_path) as f:
        si, left, b = 0, sess_len[0], 0
        for ln in f:
            if not ln.strip():
                continue
            if pref and _ev_of(ln) in pref:
                continue
            while si >= bs[b + 1]:
                b += 1
            outs[b].write(ln if ln.endswith("\n") else ln + "\n")
            left -= 1
            if left == 0:
                si += 1
                left = sess_len[si] if si < len(sess_len) else 0
    for o in outs:
        o.close()

    def run_bucket(b):
        lens = list(sess_len[bs[b]:bs[b + 1]])
        rejects, states = [], 0
        path = paths[b]
        for attempt in range(max_rejects + 1):
            r = _tv_one(module, cfg, path, "%s-shard%d" % (tag, b))
            states += r["states"]
            if r["accepted"]:
                break
            k = r["line"] - len(prefix)
            if k <= 0:
                raise ToolError("trace prefix event rejected: %s" % r)
            pos = 0
            for j, n in enumerate(lens):
                if pos + n >= k:
                    break
                pos += n
            else:
                raise ToolError("unmatched index %d beyond trace" % k)
            # read that session, rewrite the file without it
            sess, tmp = [], path + ".tmp"
            with open(path) as f, open(tmp, "w") as g:
                for i, ln in enumerate(f):
                    i2 = i - len(prefix)
                    if pos <= i2 < pos + lens[j]:
                        sess.append(json.loads(ln))
                    else:
                        g.write(ln)
            os.replace(tmp, path)
            rejects.append({"event": sess[k - pos - 1], "diag": r["diag"], "session": sess, "index_in_session": k - pos})
            del lens[j]
            if not lens:
                break
        try:
            os.remove(path)
        except OSError:
            pass
        return rejects, states

    rejects, states = [], 0
    with concurrent.futures.ThreadPoolExecutor(max_workers=nb) as ex:
        for rj, st in ex.map(run_bucket, range(nb)):
            rejects += rj
            states += st
    log("[tv] %s: %d events in %d sessions over %d shards, %d rejected" % (module, total, len(sess_len), nb, len(rejects)))
    return {"events": total, "sessions": len(sess_len), "states": states, "rejects": rejects,
            "lines": LazyLines([trace_path], skip_events=tuple(pref))}


# ------------------------------------------------------------------ verdicts / evidence

def load_known():
    if not os.path.exists(KNOWN):
        return {"open": [], "fixed": []}
    with open(KNOWN) as f:
        return json.load(f)


class Check:
    def __init__(self, pid, tier, seed):
        self.pid, self.tier, self.seed = pid, tier, seed
        self.t0 = time.time()
        self.violations = []       # (signature, description, replay_obj)
        self.known_hits = []
        self.cov = {"states": 0, "transitions": 0, "traces_validated_against_impl": 0, "evaluations": 0,
                    "distinct_nontrivial": 0, "samples": [], "mc_runs": [], "tv_runs": [], "gen_runs": [], "neg_runs": []}
        self.assumptions = []
        self.workdir = os.path.join(WORK, pid)
        os.makedirs(self.workdir, exist_ok=True)
        os.makedirs(EVID, exist_ok=True)
        os.makedirs(REPLAYS, exist_ok=True)

    @property
    def quick(self):
        return self.tier == "quick"

    def path(self, name):
        return os.path.join(self.workdir, name)

    # --- bookkeeping
    def add_mc(self, r):
        self.cov["states"] += r["distinct"]
        self.cov["transitions"] += r["states"]
        self.cov["mc_runs"].append({"module": r["module"], "cfg": r["cfg"], "states_generated": r["states"],
                                    "distinct_states": r["distinct"], "wall_s": round(r["wall"], 1),
                                    "actions": r.get("actions", {})})
        return r

    def add_neg(self, r):
        self.cov["neg_runs"].append({"module": r["module"], "cfg": r["cfg"], "rejected_by_tlc": True})

    def require_actions(self, r, names):
        missing = [n for n in names if r["actions"].get(n, 0) == 0]
        if missing:
            raise ToolError("vacuity: actions never taken in %s/%s: %s" % (r["module"], r["cfg"], missing))

    def add_tv(self, name, r, sample_events=2):
        self.cov["traces_validated_against_impl"] += r["sessions"]
        self.cov["evaluations"] += r["events"]
        self.cov["tv_runs"].append({"trace": name, "events": r["events"], "sessions": r["sessions"],
                                    "tlc_states": r["states"], "rejected": len(r["rejects"])})
        # a few actual events as samples: prefer ones that are neither trivial nor huge
        picked = []
        for i, (ln, obj) in enumerate(r["lines"]):
            if 250 <= len(ln) <= 6000:
                picked.append(obj)
            if len(picked) >= sample_events or i > 20000:
                break
        if not picked:
            picked = [obj for ln, obj in r["lines"][:sample_events]]
        for obj in picked:
            self.cov["samples"].append(_shorten(obj))

    def vacuity(self, msg):
        """a coverage guard failed: a tool error on a run without findings; with findings the run is already decided
        (the code under test may be the reason the expected outcomes are missing)"""
        if self.violations:
            log("coverage guard not met (%s) - run already has violations, reporting those" % msg)
            return
        raise ToolError(msg)

    def violation(self, signature, description, replay_obj):
        """Register a candidate violation; known findings are filtered at finish()."""
        self.violations.append((signature, description, replay_obj))

    def finish(self, level, rule, explanation=None, exhaustive=False, extra=None):
        known = load_known()
        opens = [k for k in known.get("open", []) if k.get("property") == self.pid]
        reported, printed_known = [], set()
        for sig, desc, obj in self.violations:
            hit = None
            for k in opens:
                if re.search(k["match"], sig):
                    hit = k
                    break
            if hit:
                if hit["id"] not in printed_known:
                    print("KNOWN-FINDING: property=%s %s" % (self.pid, hit["what"]))
                    printed_known.add(hit["id"])
                continue
            reported.append((sig, desc, obj))
        seen = set()
        nviol = 0
        MAX_LINES = 12          # distinct failing signatures printed; the rest is counted in the evidence file
        for sig, desc, obj in reported:
            if sig in seen:
                continue
            seen.add(sig)
            nviol += 1
            if nviol > MAX_LINES:
                continue
            h = hashlib.sha1(json.dumps(obj, sort_keys=True, default=str).encode()).hexdigest()[:10]
            path = os.path.join(REPLAYS, "%s-%s-%s.json" % (self.pid, self.seed, h))
            with open(path, "w") as f:
                json.dump({"property": self.pid, "signature": sig, "description": desc, "tier": self.tier,
                           "seed": self.seed, "replay": obj,
                           "how_to_rerun": "/verif/bin/check %s --replay %s" % (self.pid, path)}, f, indent=1, default=str)
            print("VIOLATION property=%s replay=%s" % (self.pid, path))
            log("  -> %s" % desc[:600])
        cov = dict(self.cov)
        cov["rule"] = rule
        cov["exhaustive"] = bool(exhaustive)
        if explanation:
            cov["explanation"] = explanation
        if extra:
            cov.update(extra)
        cov["samples"] = cov["samples"][:6] or [{"note": "no samples recorded"}]
        cov["known_findings_hit"] = sorted(printed_known)
        ev = {"property_id": self.pid, "tier": self.tier, "seed": self.seed, "level": level, "coverage": cov,
              "assumptions": self.assumptions, "wall_s": round(time.time() - self.t0, 2), "violations": nviol}
        with open(os.path.join(EVID, self.pid + ".json"), "w") as f:
            json.dump(ev, f, indent=1, default=str)
        log("[%s] %s tier done in %.1fs: %d violation(s)" % (self.pid, self.tier, time.time() - self.t0, nviol))
        return 1 if nviol else 0


def _shorten(obj, limit=48):
    """Readable sample: long arrays are cut."""
    if isinstance(obj, dict):
        return {k: _shorten(v, limit) for k, v in obj.items()}
    if isinstance(obj, list):
        if len(obj) > limit:
            return [_shorten(x, limit) for x in obj[:limit]] + ["... %d more" % (len(obj) - limit)]
        return [_shorten(x, limit) for x in obj]
    if isinstance(obj, str) and len(obj) > 400:
        return obj[:400] + "..."
    return obj


def recorder_level_reject(chk, rj):
    """Rejected events that come from the recorder itself (the process died, the library panicked outside an individually
    guarded call): reported as violations in a uniform way.  Returns True when the rejection was one of them."""
    ev = rj["event"]
    if isinstance(ev, dict) and ev.get("ev") == "ProcessCrash":
        chk.violation("process crash in %s driver" % ev.get("family"),
                      "the process exercising the library (%s driver, %s profile) was killed (status %s) after %s events: %s" % (
                          ev.get("family"), ev.get("profile"), ev.get("returncode"), ev.get("events_before"), str(ev.get("stderr"))[-200:]),
                      {"crash": ev, "reproduce": "rtcm_conf record %s %s (profile %s)" % (ev.get("family"), " ".join("%s=%s" % kv for kv in (ev.get("args") or {}).items()), ev.get("profile"))})
        return True
    if isinstance(ev, dict) and ev.get("ev") == "UncaughtLibraryPanic":
        # the library panicked in a call the driver had not wrapped individually: still data, not a harness crash
        chk.violation("library panic " + str(ev.get("panic"))[:120], "the library panicked while the %s driver was exercising it: %s" % (ev.get("family"), ev.get("panic")),
                      {"session": rj["session"], "rejected_index": rj["index_in_session"], "panic": ev.get("panic")})
        return True
    return False


def report_rejects(chk, r, sig_of, describe=None, tool_error_if=None):
    """Turn TV rejections into candidate violations (or tool errors when the spec says the
    harness broke its own precondition)."""
    for rj in r["rejects"]:
        ev, diag = rj["event"], rj["diag"]
        try:
            d = json.loads(diag) if isinstance(diag, str) else diag
        except Exception:
            d = {"raw": diag}
        if recorder_level_reject(chk, rj):
            continue
        if tool_error_if and tool_error_if(ev, d):
            raise ToolError("harness precondition broken (not a verdict): %s / %s" % (json.dumps(_shorten(ev))[:1500], d))
        sig = sig_of(ev, d)
        desc = (describe(ev, d) if describe else "trace event rejected by the specification") + " | spec: " + json.dumps(d)[:800]
        chk.violation(sig, desc, {"session": rj["session"], "rejected_index": rj["index_in_session"], "spec_diagnosis": d})
