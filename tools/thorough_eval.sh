#!/bin/bash
# thorough_eval.sh <seed> [checks...]: thorough tier on the unchanged tree in the sandbox copy. Appends to /tmp/mut/thorough_sweep3.txt
# mutant_eval.sh / benign_eval.sh (so that /verif and /repo stay free).  Appends to /tmp/mut/thorough_sweep3.txt
set -u
SEED=$1; shift
ER=/tmp/mut/evalrepo; EV=/tmp/mut/evalverif
[ -d $ER ] || git -C /repo worktree add -q --detach $ER HEAD
git -C $ER checkout -q --detach $(git -C /repo rev-parse HEAD) 2>/dev/null; git -C $ER checkout -q -- .
mkdir -p $EV && rsync -a --delete --exclude work --exclude .git --exclude replays --exclude evidence /verif/ $EV/
sed -i "s#path = \"/repo\"#path = \"$ER\"#" $EV/harness/Cargo.toml $EV/probe/Cargo.toml
cp -n /repo/Cargo.lock $ER/Cargo.lock 2>/dev/null
CH="$@"; [ -z "$CH" ] && CH="C01 C02 C03 C04 C05 C06 C07 C08 C09 C10 C11 C12 C13 C14 C15 C16 C17 C18 C19 C20"
for c in $CH; do
  S=$(date +%s)
  OUT=$(cd $EV && VERIF_REPO=$ER VERIF_SEED=$SEED bin/check $c --tier thorough 2>&1); RC=$?
  echo "seed=$SEED $c rc=$RC $(( $(date +%s) - S ))s $(echo "$OUT" | grep -E '^VIOLATION|TOOL ERROR|-> ' | head -3 | cut -c1-300 | tr '\n' ' ')" >> /tmp/mut/thorough_sweep3.txt
done
echo "seed $SEED done" >> /tmp/mut/thorough_sweep3.txt
