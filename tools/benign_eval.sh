#!/bin/bash
# benign_eval.sh <change-dir> <worktree> <check ids...|ALL>
#  false-alarm measurement: <change-dir>/patch.diff is a change that keeps every property (delivered by a sub-agent
#  that saw only the property texts).  Confirms that the repository's suite passes with it, then runs the listed
#  checks in the sandbox copy (as mutant_eval.sh does).  Every rc must be 0.  Results: <change-dir>/eval.txt
set -u
M=$1; WT=$2; shift 2
LOG=$M/eval.txt
ER=/tmp/mut/evalrepo; EV=/tmp/mut/evalverif
echo "== $(date) $M" > $LOG
if [ -d $WT ]; then
  cd $WT && git checkout -q -- .
  if git apply $M/patch.diff; then
    R=$(cargo test --workspace --no-fail-fast --offline 2>&1 | grep -E '^test result' | awk '{p+=$4; f+=$6} END {print "passed",p,"failed",f}')
    echo "suite_changed: $R" >> $LOG
  else
    echo "patch does not apply in worktree" >> $LOG
  fi
  git checkout -q -- .
fi
[ -d $ER ] || git -C /repo worktree add -q --detach $ER HEAD
git -C $ER checkout -q --detach $(git -C /repo rev-parse HEAD) 2>/dev/null; git -C $ER checkout -q -- .
mkdir -p $EV && rsync -a --delete --exclude work --exclude .git --exclude replays --exclude evidence /verif/ $EV/
sed -i "s#path = \"/repo\"#path = \"$ER\"#" $EV/harness/Cargo.toml $EV/probe/Cargo.toml
cp -n /repo/Cargo.lock $ER/Cargo.lock 2>/dev/null
CH="$@"; [ "$CH" = "ALL" ] && CH="C01 C02 C03 C04 C05 C06 C07 C08 C09 C10 C11 C12 C13 C14 C15 C16 C17 C18 C19 C20"
if git -C $ER apply $M/patch.diff; then
  for c in $CH; do
    OUT=$(cd $EV && VERIF_REPO=$ER bin/check $c 2>&1); RC=$?
    echo "check $c rc=$RC $(echo "$OUT" | grep -c '^VIOLATION') violation lines" >> $LOG
    [ $RC -ne 0 ] && echo "$OUT" | grep -E '^VIOLATION|TOOL ERROR|-> |rror' | head -8 | cut -c1-400 >> $LOG
  done
  git -C $ER checkout -q -- .
else
  echo "patch does not apply to the sandbox repo" >> $LOG
fi
echo "== done" >> $LOG
