------------------------------ MODULE MC_Stream ------------------------------
(* C06 at design level: all toy streams up to MaxLen x all chunkings x all    *)
(* interleavings of "more data arrives" and "caller scans again".             *)
EXTENDS Stream, TLC

CONSTANTS MaxLen
Strings(n) == UNION {[1..k -> 0..(ToyA - 1)] : k \in 0..n}

Init == \E s \in Strings(MaxLen) : StreamInit(s)
Next == (\E n \in 1..MaxLen : Feed(n)) \/ ScanStep
Spec == Init /\ [][Next]_streamVars /\ WF_streamVars(ScanStep) /\ WF_streamVars(\E n \in 1..MaxLen : Feed(n))

Inv == ChunkInv /\ PrefixInv /\ PendingIsUnconsumed /\ DeliveredAreFrames
Progress == <>[]Quiescent

(* ---- must-fail variants (sensitivity of the model) ------------------------ *)
(* a scanner that treats an incomplete candidate like an invalid one and      *)
(* keeps looking ("Incomplete => continue")                                   *)
SkipIncomplete(b) ==
    LET live == {i \in S!Cand(b) : S!St(b, i) = "ok"} IN
    IF live = {} THEN [consumed |-> Len(b), frame |-> S!NoFrame]
    ELSE LET i == Min(live) IN
         [consumed |-> i - 1 + FrameLen(S!Rest(b, i)), frame |-> [at |-> i, len |-> FrameLen(S!Rest(b, i))]]
NegNextSkip == (\E n \in 1..MaxLen : Feed(n))
               \/ (LET SR == SkipIncomplete(pending) IN (SR.consumed > 0 \/ SR.frame # S!NoFrame) /\ Apply(SR))
(* (a scanner that returns early on an invalid candidate -- "NotValid => return (i+1, None)" -- is NOT a  *)
(* counterexample to C06: the caller's loop absorbs it; it breaks C05, see NEG_C05_return.cfg)            *)
=============================================================================
