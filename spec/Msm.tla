-------------------------------- MODULE Msm --------------------------------
(* MSM satellite / signal / cell masks (msm_data_seg_frag! in src/msg/mod.rs), *)
(* over sets and sequences only.  A cell is <<sat, sigpos>> with sigpos the     *)
(* signal's mask position (0 = unrecognised).  NSat / NSig / MaxCells are 64 /  *)
(* 32 / 64 in the standard; the model checker uses a small universe.            *)
EXTENDS Integers, Sequences, SequencesExt, FiniteSets, FiniteSetsExt

CONSTANTS NSat, NSig, MaxCells

SeqSet(s) == {s[k] : k \in 1..Len(s)}
HasDup(s) == \E i, j \in 1..Len(s) : i # j /\ s[i] = s[j]

(* ---- preconditions and the error each broken one is answered with ------------- *)
ErrorsOf(sats, cells) ==        \* sats: sequence of ids; cells: sequence of <<sat, sigpos>>
    (IF (\E k \in 1..Len(sats) : sats[k] \notin 1..NSat) \/ (\E k \in 1..Len(cells) : cells[k][1] \notin 1..NSat)
        THEN {"InvalidSatelliteId"} ELSE {})
    \cup (IF \E k \in 1..Len(cells) : cells[k][2] = 0 THEN {"InvalidSignalId"} ELSE {})
    \cup (IF HasDup(sats) THEN {"DuplicateSatellite"} ELSE {})
    \cup (IF HasDup(cells) THEN {"DuplicateSatelliteSignal"} ELSE {})
    \cup (IF SeqSet(sats) # {cells[k][1] : k \in 1..Len(cells)} THEN {"SatelliteMismatch"} ELSE {})
    \cup (IF Cardinality(SeqSet(sats)) * Cardinality({cells[k][2] : k \in 1..Len(cells)}) > MaxCells
          THEN {"InvalidSatelliteSignalCount"} ELSE {})

(* ---- declarative masks (bit 1 = most significant) -------------------------------- *)
SatMask(S) == [i \in 1..NSat |-> IF i \in S THEN 1 ELSE 0]
SigMask(G) == [j \in 1..NSig |-> IF j \in G THEN 1 ELSE 0]
(* row-major S x G incidence, satellites and signals ascending *)
CellMask(S, G, C) ==
    LET ss == SetToSortSeq(S, <)
        gs == SetToSortSeq(G, <)
        ng == Len(gs)
    IN [i \in 1..(Len(ss) * ng) |-> IF <<ss[(i - 1) \div ng + 1], gs[((i - 1) % ng) + 1]>> \in C THEN 1 ELSE 0]
(* order of the data rows *)
SatRowOrder(S) == SetToSortSeq(S, <)
CellLess(a, b) == a[1] < b[1] \/ (a[1] = b[1] /\ a[2] < b[2])
CellRowOrder(C) == SetToSortSeq(C, CellLess)

(* ---- the code's index arithmetic (encoder), transcribed --------------------------- *)
(* sat_indx[i] / sig_indx[i]: running index of set mask bits; cell_indx = sat_indx*|G| + sig_indx; *)
(* cell bit = 1 << (cell_cont_len - 1 - cell_indx), i.e. position cell_indx + 1 from the left       *)
IndexOf(M, i) == Cardinality({j \in M : j < i})
CellMaskAlg(S, G, cellseq) ==
    LET ng == Cardinality(G)
        len == ng * Cardinality(S)
        bits == {IndexOf(S, cellseq[k][1]) * ng + IndexOf(G, cellseq[k][2]) + 1 : k \in 1..Len(cellseq)}
    IN [i \in 1..len |-> IF i \in bits THEN 1 ELSE 0]
(* the decoder's cell_mask_id_vec *)
CellsFromMask(S, G, mask) ==
    LET ss == SetToSortSeq(S, <)
        gs == SetToSortSeq(G, <)
        ng == Len(gs)
    IN SelectSeq([i \in 1..Len(mask) |-> IF mask[i] = 1 THEN <<ss[(i - 1) \div ng + 1], gs[((i - 1) % ng) + 1]>> ELSE <<0, 0>>],
                 LAMBDA c : c # <<0, 0>>)
=============================================================================
