CONSTANTS NSat = 4 NSig = 3 MaxCells = 6
INIT Init
NEXT Next
INVARIANT Inv
CHECK_DEADLOCK FALSE
