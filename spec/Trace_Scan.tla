----------------------------- MODULE Trace_Scan -----------------------------
(* Trace validation for C05: every recorded next_msg_frame call must return   *)
(* the declarative ScanResult of its buffer; every MsgFrameIter run must      *)
(* yield exactly WholeScan and stay put afterwards.  Real profile.            *)
EXTENDS Frame, Json, IOUtils, TLC

Rec == ndJsonDeserialize(IOEnv.TRACE)
VARIABLE l
S == INSTANCE Scanner WITH buf <- <<>>, i <- 0, result <- [consumed |-> -1, frame |-> [at |-> 0, len |-> 0]]

IsEvent(e) == l <= Len(Rec) /\ Rec[l].ev = e /\ l' = l + 1

(* the harness reports frame positions 0-based, -1 for "no frame" *)
AsResult(r) == [consumed |-> r.consumed,
                frame |-> IF r.at < 0 THEN S!NoFrame ELSE [at |-> r.at + 1, len |-> r.len]]
ScanOk(r) == r.at >= -1 /\ AsResult(r) = S!ScanResultFast(r.buf)

IterOk(r) == LET w == S!WholeScanFast(r.buf) IN
             /\ r.runaway = 0
             /\ r.consumed = w.consumed
             /\ r.frames = [k \in 1..Len(w.frames) |-> <<w.frames[k].at - 1, w.frames[k].len>>]
             \* after the first None: three more next() calls yield None and leave consumed() alone
             /\ Len(r.after) = 3
             /\ \A k \in 1..3 : r.after[k] = <<0, w.consumed>>

TraceScan == IsEvent("Scan") /\ ScanOk(Rec[l]) = TRUE
TraceIter == IsEvent("Iter") /\ IterOk(Rec[l]) = TRUE
Init == l = 1
Next == TraceScan \/ TraceIter

Explain(r) == CASE r.ev = "Scan" -> [expected |-> S!ScanResultFast(r.buf), note |-> "frame.at is 1-based here, 0-based in the event"]
                [] r.ev = "Iter" -> [expected |-> S!WholeScanFast(r.buf), note |-> "frames[k].at is 1-based here"]
                [] OTHER -> [unknown_event |-> r.ev]
Accepted == LET d == TLCGet("stats").diameter IN
            IF d - 1 = Len(Rec) THEN TRUE
            ELSE /\ PrintT(<<"UNMATCHED", d, ToJson(Explain(Rec[d]))>>)
                 /\ FALSE
=============================================================================
