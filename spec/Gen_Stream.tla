----------------------------- MODULE Gen_Stream -----------------------------
(* Behaviour generation for C05 / C06 (spec -> implementation), REAL frame      *)
(* profile.  A behaviour first assembles a stream from pieces (valid frames of  *)
(* several payload lengths, a frame with one flipped bit, a truncated frame, a  *)
(* stray preamble, a header announcing a long body, garbage, a frame nested in  *)
(* a corrupted outer candidate), then runs the Stream machine: Feed(n) with cut *)
(* sizes chosen from a boundary-heavy set and ScanStep, freely interleaved.     *)
(* Every scanner call carries the result the specification computes; at         *)
(* quiescence the behaviour is printed as one JSON line for the replayer.       *)
(* Run with `tlc -simulate`: each random walk is one behaviour.                 *)
EXTENDS Stream, TLC, Json

CONSTANTS MaxPieces, MaxSteps
VARIABLES phase, pieces, hist, steps
gvars == <<streamVars, phase, pieces, hist, steps>>

Pay(n, seed) == [k \in 1..n |-> (k * 29 + seed * 53 + 7) % 256]
Valid(n, seed) == MkFrame(Pay(n, seed), 0)
FlipLast(f) == [f EXCEPT ![Len(f)] = (f[Len(f)] + 1) % 256]
Piece(kind, n, seed) ==
    CASE kind = "frame"     -> Valid(n, seed)
      [] kind = "corrupt"   -> FlipLast(Valid(n, seed))
      [] kind = "truncated" -> SubSeq(Valid(n + 3, seed), 1, 4 + (seed % (n + 3)))
      [] kind = "stray"     -> <<211>>
      [] kind = "longhdr"   -> <<211, 3, 200 + (seed % 50), seed % 256>>
      [] kind = "garbage"   -> Pay(1 + (seed % 9), seed)
      [] kind = "nested"    -> FlipLast(MkFrame(<<1, 2>> \o Valid(n, seed) \o <<3>>, 0))
      [] kind = "d3pay"     -> MkFrame(<<211, 0, 0>> \o Pay(n, seed), 0)            \* a valid frame whose payload starts like a frame
Kinds == {"frame", "frame", "corrupt", "truncated", "stray", "longhdr", "garbage", "nested", "d3pay"}
Lens == {0, 1, 2, 5, 19, 40}

Init == /\ StreamInit(<<>>) /\ phase = "build" /\ pieces = 0 /\ hist = <<>> /\ steps = 0
AddPiece == /\ phase = "build" /\ pieces < MaxPieces
            /\ \E kind \in Kinds, n \in Lens, seed \in 0..5 :
                  stream' = stream \o Piece(kind, n, seed)
            /\ pieces' = pieces + 1
            /\ UNCHANGED <<fed, pending, base, delivered, phase, hist, steps>>
StartRun == /\ phase = "build" /\ pieces >= 1
            /\ phase' = "run" /\ UNCHANGED <<streamVars, pieces, hist, steps>>
Cuts == {1, 2, 3, 5, 6, 7, 11, 46}
DoFeed == /\ phase = "run" /\ steps < MaxSteps /\ fed < Len(stream)
          /\ \E c \in Cuts \cup {Len(stream) - fed} :
                LET n == IF c > Len(stream) - fed THEN Len(stream) - fed ELSE c IN
                /\ Feed(n)
                /\ hist' = Append(hist, [op |-> "feed", n |-> n, consumed |-> 0, at |-> 0, len |-> 0])
          /\ steps' = steps + 1 /\ UNCHANGED <<phase, pieces>>
(* a scanner call, progress or not: the expected result is the specification's *)
DoScan == /\ phase = "run" /\ steps < MaxSteps
          /\ LET SR == S!ScanResultFast(pending) IN
             /\ IF SR.consumed > 0 \/ SR.frame # S!NoFrame THEN Apply(SR) ELSE UNCHANGED streamVars
             /\ hist' = Append(hist, [op |-> "scan", n |-> 0, consumed |-> SR.consumed, at |-> SR.frame.at, len |-> SR.frame.len])
          /\ steps' = steps + 1 /\ UNCHANGED <<phase, pieces>>
Finish == /\ phase = "run" /\ (Quiescent \/ steps >= MaxSteps)
          /\ phase' = "done" /\ UNCHANGED <<streamVars, pieces, hist, steps>>
Next == AddPiece \/ StartRun \/ DoFeed \/ DoScan \/ Finish

(* printed once per behaviour, when it is done *)
Emit == phase = "done" =>
          PrintT(<<"REPLAY", ToJson([stream |-> stream, ops |-> hist, fed |-> fed, base |-> base,
                                     delivered |-> [k \in 1..Len(delivered) |-> <<delivered[k].at, delivered[k].len>>],
                                     quiescent |-> Quiescent,
                                     whole |-> IF Quiescent THEN [k \in 1..Len(Whole.frames) |-> <<Whole.frames[k].at, Whole.frames[k].len>>] ELSE <<>>])>>)
(* C06 inside the generator as well: a quiescent behaviour delivered exactly WholeScan(stream) *)
GenChunkInv == (phase = "done" /\ Quiescent) => (delivered = Whole.frames /\ base = Whole.consumed)
=============================================================================
