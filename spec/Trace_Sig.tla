------------------------------ MODULE Trace_Sig ------------------------------
(* Trace validation for C18: the signal tables as observed from the library.   *)
(* One SigTable event per constellation carries the valid set over the whole    *)
(* public descriptor space, the wire position of each valid descriptor, the     *)
(* decode of each mask position, and the full comparison matrix of a sample.    *)
(* Demands (chosen not to alarm on legitimate growth of the tables):            *)
(*   Obs is a bijection onto a subset of 2..32; Std \subseteq Obs; valid iff in *)
(*   Obs; encode and decode directions are inverse; cmp orders recognised by    *)
(*   position, unrecognised after all recognised, and is a consistent total     *)
(*   order with cmp = Equal iff ==.                                             *)
EXTENDS SigTables, Json, IOUtils, TLC

Rec == ndJsonDeserialize(IOEnv.TRACE)
VARIABLE l
IsEvent(e) == l <= Len(Rec) /\ Rec[l].ev = e /\ l' = l + 1
SeqToSet(s) == {s[k] : k \in 1..Len(s)}

(* observed table: triples <<pos, band, attr>> (a descriptor whose message set   *)
(* anything but exactly one mask bit gets position 0 and fails the checks)       *)
Obs(r) == { <<(IF Len(r.pos[k][3]) = 1 THEN r.pos[k][3][1] ELSE 0), r.pos[k][1], r.pos[k][2]>> : k \in 1..Len(r.pos) }
ObsPos(r, d) == IF \E t \in Obs(r) : Desc(t) = d THEN (CHOOSE t \in Obs(r) : Desc(t) = d)[1] ELSE 0

SigOk(r) ==
    LET g == r.gnss
        O == Obs(r)
        V == SeqToSet(r.valid)
        n == Len(r.sample)
        IsRec(i) == r.sample_valid[i] = 1
        C(i, j) == (CHOOSE e \in SeqToSet(r.cmp) : e[1] = i /\ e[2] = j)
    IN
    /\ g \in Gnss /\ r.probed >= 65536
    /\ r.extra_valid = <<>>                                      \* no descriptor outside Latin-1 is valid
    /\ Cardinality(O) = Len(r.pos) /\ Len(r.pos) = Len(r.valid)   \* every valid descriptor has one observation
    /\ TableOk(O)                                                \* bijection onto a subset of 2..32
    /\ Std[g] \subseteq O                                        \* every standard signal present at its standard position
    /\ {Desc(t) : t \in O} = {<<v[1], v[2]>> : v \in V}          \* valid exactly when in the table
    \* decode direction: position p decodes to the descriptor at p, every other position to Corrupt
    /\ Len(r.decode) = 32
    /\ \A k \in 1..32 : LET e == r.decode[k] IN
          IF \E t \in O : t[1] = e[1] THEN <<e[1], e[2], e[3]>> \in O ELSE (e[2] = -1 /\ e[3] = -1)
    \* comparison matrix
    /\ \A i \in 1..n : IsRec(i) <=> (<<r.sample[i][1], r.sample[i][2]>> \in {Desc(t) : t \in O})
    /\ \A i, j \in 1..n :
          LET c == C(i, j) IN
          /\ c[5] = (IF r.sample[i] = r.sample[j] THEN 1 ELSE 0)          \* == is descriptor equality
          /\ (c[3] = 0) <=> (i = j \/ r.sample[i] = r.sample[j])          \* cmp = Equal iff ==
          /\ c[3] = -C(j, i)[3]                                           \* antisymmetric
          /\ (IsRec(i) /\ IsRec(j)) => c[3] = (IF ObsPos(r, <<r.sample[i][1], r.sample[i][2]>>) < ObsPos(r, <<r.sample[j][1], r.sample[j][2]>>) THEN -1
                                                ELSE IF ObsPos(r, <<r.sample[i][1], r.sample[i][2]>>) > ObsPos(r, <<r.sample[j][1], r.sample[j][2]>>) THEN 1 ELSE 0)
          /\ (IsRec(i) /\ ~IsRec(j)) => c[3] = -1                         \* every unrecognised after every recognised
          \* the comparison operators (partial_cmp) tell the same story as cmp: always for two recognised descriptors,
          \* and whenever they give an answer at all (the code answers None when an unrecognised descriptor is involved)
          /\ (IsRec(i) /\ IsRec(j)) => c[4] = c[3]
          /\ c[4] # 2 => c[4] = c[3]
    /\ \A i, j, k \in 1..n : (C(i, j)[3] = -1 /\ C(j, k)[3] = -1) => C(i, k)[3] = -1    \* transitive

TraceSig == IsEvent("SigTable") /\ SigOk(Rec[l]) = TRUE
Init == l = 1
Next == TraceSig
Explain(r) == [gnss |-> r.gnss, observed |-> Obs(r), missing_standard |-> Std[r.gnss] \ Obs(r),
               rule |-> "bijection into 2..32, Std subset, valid iff in table, decode inverse, cmp = total order by position then unrecognised"]
Accepted == LET d == TLCGet("stats").diameter IN
            IF d - 1 = Len(Rec) THEN TRUE
            ELSE /\ PrintT(<<"UNMATCHED", d, ToJson(Explain(Rec[d]))>>)
                 /\ FALSE
=============================================================================
