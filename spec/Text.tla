-------------------------------- MODULE Text --------------------------------
(* Text fields (src/util/mod.rs Df88591String, src/util/array_string.rs,       *)
(* src/df/dfs/df_msg1029_utf8_str.rs) on sequences of Unicode code points.      *)
EXTENDS Integers, Sequences, SequencesExt

(* ---- ISO 8859-1 descriptor strings ------------------------------------------- *)
Latin1(cp) == IF cp >= 1 /\ cp <= 255 THEN cp ELSE 164                       \* 0xA4 for NUL and everything above U+00FF
Desc(cps, N) == [i \in 1..(IF Len(cps) < N THEN Len(cps) ELSE N) |-> Latin1(cps[i])]     \* From<&str>: first N characters
Chars(bytes) == [i \in 1..Len(bytes) |-> IF bytes[i] = 0 THEN 164 ELSE bytes[i]]        \* chars()

(* ---- UTF-8 ------------------------------------------------------------------------ *)
IsScalar(cp) == (cp >= 0 /\ cp <= 55295) \/ (cp >= 57344 /\ cp <= 1114111)
U8Len(cp) == IF cp < 128 THEN 1 ELSE IF cp < 2048 THEN 2 ELSE IF cp < 65536 THEN 3 ELSE 4
U8(cp) == CASE cp < 128   -> <<cp>>
            [] cp < 2048  -> <<192 + cp \div 64, 128 + (cp % 64)>>
            [] cp < 65536 -> <<224 + cp \div 4096, 128 + ((cp \div 64) % 64), 128 + (cp % 64)>>
            [] OTHER      -> <<240 + cp \div 262144, 128 + ((cp \div 4096) % 64), 128 + ((cp \div 64) % 64), 128 + (cp % 64)>>
U8Bytes(cps) == FoldLeft(LAMBDA acc, cp : acc \o U8(cp), <<>>, cps)
ByteLen(cps) == FoldLeft(LAMBDA acc, cp : acc + U8Len(cp), 0, cps)
(* From<&str> for ArrayString<N>: the longest prefix of whole characters that fits N bytes *)
Utf8Prefix(cps, N) ==
    LET fit == FoldLeft(LAMBDA acc, cp : IF acc.open /\ acc.bytes + U8Len(cp) <= N
                                         THEN [n |-> acc.n + 1, bytes |-> acc.bytes + U8Len(cp), open |-> TRUE]
                                         ELSE [acc EXCEPT !.open = FALSE],
                        [n |-> 0, bytes |-> 0, open |-> TRUE], cps)
    IN SubSeq(cps, 1, fit.n)

(* well-formed UTF-8 (Unicode table 3-7): no overlongs, no surrogates, nothing above U+10FFFF, no truncated tails *)
Cont(b) == b >= 128 /\ b <= 191
RECURSIVE ValidFrom(_, _)
ValidFrom(bs, i) ==
    IF i > Len(bs) THEN TRUE
    ELSE LET b == bs[i]
             has(k) == i + k <= Len(bs) IN
         CASE b <= 127 -> ValidFrom(bs, i + 1)
           [] b >= 194 /\ b <= 223 -> has(1) /\ Cont(bs[i + 1]) /\ ValidFrom(bs, i + 2)
           [] b = 224 -> has(2) /\ bs[i + 1] >= 160 /\ bs[i + 1] <= 191 /\ Cont(bs[i + 2]) /\ ValidFrom(bs, i + 3)
           [] (b >= 225 /\ b <= 236) \/ b = 238 \/ b = 239 -> has(2) /\ Cont(bs[i + 1]) /\ Cont(bs[i + 2]) /\ ValidFrom(bs, i + 3)
           [] b = 237 -> has(2) /\ bs[i + 1] >= 128 /\ bs[i + 1] <= 159 /\ Cont(bs[i + 2]) /\ ValidFrom(bs, i + 3)
           [] b = 240 -> has(3) /\ bs[i + 1] >= 144 /\ bs[i + 1] <= 191 /\ Cont(bs[i + 2]) /\ Cont(bs[i + 3]) /\ ValidFrom(bs, i + 4)
           [] b >= 241 /\ b <= 243 -> has(3) /\ Cont(bs[i + 1]) /\ Cont(bs[i + 2]) /\ Cont(bs[i + 3]) /\ ValidFrom(bs, i + 4)
           [] b = 244 -> has(3) /\ bs[i + 1] >= 128 /\ bs[i + 1] <= 143 /\ Cont(bs[i + 2]) /\ Cont(bs[i + 3]) /\ ValidFrom(bs, i + 4)
           [] OTHER -> FALSE
ValidUtf8(bs) == ValidFrom(bs, 1)
(* number of characters of well-formed UTF-8 = number of bytes that are not continuation bytes *)
Utf8CharCount(bs) == Cardinality({i \in 1..Len(bs) : ~Cont(bs[i])})

(* ---- message 1029: 7-bit character count, 8-bit byte count, the bytes ----------------- *)
Msg1029Accepts(cps) == Len(cps) <= 127 /\ ByteLen(cps) <= 255
=============================================================================
