CONSTANTS NSats = 3 NSigs = 3 MaxLen = 5 CountMax = 2 Guarded = FALSE
INIT Init
NEXT Next
INVARIANT Keep
CHECK_DEADLOCK FALSE
