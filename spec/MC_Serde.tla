------------------------------ MODULE MC_Serde ------------------------------
(* C20 at design level: the two hand-written string (de)serialisers            *)
(* (src/util/mod.rs, src/util/array_string.rs) with their buffers.             *)
(*  SerDesc: the characters of a descriptor string are collected into a UTF-8  *)
(*           buffer of B bytes (collection stops at the first character that   *)
(*           does not fit) and handed to the serializer as one string;         *)
(*  DeDesc : the first N characters of the string, through Latin1.             *)
(* With B >= 2N, or a streaming serialiser (B unbounded), the round trip is    *)
(* the identity; with B = N bytes it loses characters (NEG_C20_cap: defect D6).*)
EXTENDS Text, TLC
CONSTANTS N, B
VARIABLE bytes
ByteAlphabet == {0, 65, 127, 128, 164, 255}
Init == bytes \in UNION {[1..k -> ByteAlphabet] : k \in 0..N}
Next == UNCHANGED bytes
(* the stored bytes are never 0 (push maps 0 to 0xA4) *)
Stored == [i \in 1..Len(bytes) |-> IF bytes[i] = 0 THEN 164 ELSE bytes[i]]
SerDesc == Utf8Prefix(Chars(Stored), B)          \* what reaches the serializer, as code points
DeDesc(cps) == Desc(cps, N)
RoundTrip == DeDesc(SerDesc) = Stored
(* ArrayString<N>: serialises its str, deserialises the longest fitting prefix *)
Utf8RoundTrip == \A cps \in UNION {[1..k -> {65, 233, 28450, 65536}] : k \in 0..N} :
                    LET a == Utf8Prefix(cps, N) IN Utf8Prefix(a, N) = a
Inv == RoundTrip /\ Utf8RoundTrip
=============================================================================
