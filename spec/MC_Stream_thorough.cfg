CONSTANTS Profile = "toy" ToyA = 3 MaxLen = 8
SPECIFICATION Spec
INVARIANT Inv
PROPERTY Progress
CHECK_DEADLOCK FALSE
