------------------------------ MODULE Dispatch ------------------------------
(* Message::from_message_frame (src/msg/message.rs): which outcome class a    *)
(* frame may decode to, by payload length and message number (C14).           *)
(* Supported is not pinned here: it is the feature list of the configuration  *)
(* under test (parsed from Cargo.toml), because the property equates the two. *)
EXTENDS Integers, Sequences

(* outcome classes *)
Empty == [kind |-> "Empty", n |-> -1]
Corrupt == [kind |-> "Corrupt", n |-> -1]
NotSupported(n) == [kind |-> "MsgNotSupported", n |-> n]
Typed(n) == [kind |-> "Typed", n |-> n]

Class(dlen, n, Supported) ==
    IF dlen < 2 THEN {Empty}
    ELSE IF n \notin Supported THEN {NotSupported(n)}
    ELSE {Typed(n), Corrupt}

(* the number of a typed variant is the digits of its name: "Msg1074" -> 1074 *)
Digit(c) == CASE c = "0" -> 0 [] c = "1" -> 1 [] c = "2" -> 2 [] c = "3" -> 3 [] c = "4" -> 4
              [] c = "5" -> 5 [] c = "6" -> 6 [] c = "7" -> 7 [] c = "8" -> 8 [] c = "9" -> 9 [] OTHER -> -1
=============================================================================
