CONSTANTS Profile = "toy" ToyA = 3 MaxLen = 6 MaxSfx = 2
INIT Init
NEXT Next
INVARIANT NumFromSliceLenStable
CHECK_DEADLOCK FALSE
