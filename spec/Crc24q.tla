------------------------------ MODULE Crc24q ------------------------------
(* CRC-24Q as RTCM 10403 defines it: generator polynomial                     *)
(*   x^24+x^23+x^18+x^17+x^14+x^11+x^10+x^7+x^6+x^5+x^4+x^3+x+1 = 0x1864CFB,  *)
(* zero initial value, no reflection, no final xor.  Two definitions:         *)
(*   CrcBitwise  -- long division over GF(2), one message bit at a time (the  *)
(*                  definition);                                               *)
(*   Crc         -- byte-at-a-time with a 256-entry table that is *derived    *)
(*                  here* from the bitwise definition (used for speed; the MC *)
(*                  module checks both agree).                                *)
(* The implementation under test uses crc-any's table for "crc24lte_a"; none  *)
(* of that is visible here.                                                   *)
EXTENDS Integers, Sequences, SequencesExt, Bitwise, Bits

Poly     == 25578747          \* 0x1864CFB, 25 bits
PolyLow  == 8801531           \* 0x864CFB, the low 24 bits
Two24    == 16777216
Two23    == 8388608

(* one shift-xor step of the 24-bit remainder register with input bit 0 *)
Step0(r) == IF r >= Two23 THEN ((r - Two23) * 2) ^^ PolyLow ELSE r * 2

(* feed one message bit (MSB-first) *)
StepBit(r, b) == Step0(IF b = 1 THEN r ^^ Two23 ELSE r)

CrcBitwiseFrom(r0, bits) == FoldLeft(StepBit, r0, bits)
CrcBitwise(bytes) == CrcBitwiseFrom(0, BytesToBits(bytes))

(* table entry: remainder of (i * x^24) -- eight steps starting from i<<16 *)
Entry(i) == Step0(Step0(Step0(Step0(Step0(Step0(Step0(Step0(i * 65536))))))))
Table == [i \in 0..255 |-> Entry(i)]

StepByte(r, byte) == ((r % 65536) * 256) ^^ Table[(r \div 65536) ^^ byte]

CrcFrom(r0, bytes) == FoldLeft(StepByte, r0, bytes)
Crc(bytes) == CrcFrom(0, bytes)

CrcBytes(c) == << c \div 65536, (c \div 256) % 256, c % 256 >>
CrcOfBytes(b3) == b3[1] * 65536 + b3[2] * 256 + b3[3]

(* x^k mod g for the error-detection theorems (k >= 0): start from x^0 = 1   *)
(* and multiply by x, reducing with g when bit 24 appears                    *)
MulX(r) == Step0(r)
=============================================================================
