------------------------------ MODULE Trace_Text ------------------------------
(* Trace validation for C17: text fields.                                       *)
EXTENDS Text, Frame, BitOps, Json, IOUtils, TLC

Rec == ndJsonDeserialize(IOEnv.TRACE)
VARIABLE l
IsEvent(e) == l <= Len(Rec) /\ Rec[l].ev = e /\ l' = l + 1
IsErr(out) == Len(out) > 4 /\ SubSeq(out, 1, 4) = "err:"

(* conversions From<&str> *)
StrOk(r) ==
    /\ r.panic = ""
    /\ IF r.kind = "desc"
       THEN LET d == Desc(r.cps_in, r.cap) IN
            /\ r.bytes = d /\ r.len = Len(d) /\ r.chars = Chars(d)
       ELSE LET p == Utf8Prefix(r.cps_in, r.cap) IN
            /\ r.chars = p /\ r.bytes = U8Bytes(p) /\ r.len = ByteLen(p)
            /\ ValidUtf8(r.bytes) /\ Len(r.bytes) <= r.cap

(* fields set through From<&str>, message built and decoded *)
TextRtOk(r) ==
    IF r.number = 1029
    THEN LET stored == Utf8Prefix(r.cps_in, 255) IN
         /\ r.stored = stored
         /\ IF Msg1029Accepts(stored)
            THEN /\ r.out = "ok" /\ Classify(r.frame) = "ok"
                 /\ r.dec = "Typed" /\ r.cps_dec = stored               \* comes back unchanged
                 \* wire form (payload bit 57 on): 7-bit character count, 8-bit byte count, the UTF-8 bytes, zero padding
                 /\ LET bytes == U8Bytes(stored)
                        want == ToBitsU(Len(stored), 7) \o ToBitsU(Len(bytes), 8) \o BytesToBits(bytes)
                        have == BufBits(r.frame, 24 + 57, 8 * DeclLen(r.frame) - 57) IN
                    /\ Len(have) >= Len(want) /\ Len(have) - Len(want) < 8
                    /\ SubSeq(have, 1, Len(want)) = want
                    /\ AllZero(SubSeq(have, Len(want) + 1, Len(have)))
            ELSE IsErr(r.out)                                           \* more than 127 characters / 255 bytes: refused
    ELSE LET stored == Desc(r.cps_in, 31) IN
         /\ r.stored = stored
         /\ r.out = "ok" /\ Classify(r.frame) = "ok"
         /\ r.dec = "Typed" /\ r.cps_dec = stored

(* 1029 frames carrying arbitrary text bytes: invalid UTF-8 must decode to Corrupt *)
Utf8FrameOk(r) ==
    /\ Classify(r.frame) = "ok"
    /\ IF ~ValidUtf8(r.text) THEN r.dec = "Corrupt"
       \* valid text: when the character counter (DF138) agrees with the text this is what an encoder writes, so it decodes
       \* to that text; whether a decoder checks a DISAGREEING counter is not fixed by C17 (either outcome, but never other text)
       ELSE /\ r.dec \in {"Typed", "Corrupt"}
            /\ r.dec = "Typed" => U8Bytes(r.cps_dec) = r.text
            /\ ("nchars" \notin DOMAIN r \/ r.nchars = Utf8CharCount(r.text)) => r.dec = "Typed"
Utf8ShortOk(r) == r.declared > r.present => r.dec = "Corrupt"

TraceStr == IsEvent("Str") /\ StrOk(Rec[l]) = TRUE
TraceRt == IsEvent("TextRt") /\ TextRtOk(Rec[l]) = TRUE
TraceU == IsEvent("Utf8Frame") /\ Utf8FrameOk(Rec[l]) = TRUE
TraceS == IsEvent("Utf8Short") /\ Utf8ShortOk(Rec[l]) = TRUE
Init == l = 1
Next == TraceStr \/ TraceRt \/ TraceU \/ TraceS
Explain(r) == CASE r.ev = "Str" -> [expected |-> IF r.kind = "desc" THEN Desc(r.cps_in, r.cap) ELSE Utf8Prefix(r.cps_in, r.cap)]
                [] r.ev = "TextRt" -> [expected_stored |-> IF r.number = 1029 THEN Utf8Prefix(r.cps_in, 255) ELSE Desc(r.cps_in, 31),
                                       accepts |-> IF r.number = 1029 THEN Msg1029Accepts(Utf8Prefix(r.cps_in, 255)) ELSE TRUE]
                [] r.ev = "Utf8Frame" -> [valid |-> ValidUtf8(r.text), dec |-> r.dec]
                [] OTHER -> [event |-> r.ev]
Accepted == LET d == TLCGet("stats").diameter IN
            IF d - 1 = Len(Rec) THEN TRUE
            ELSE /\ PrintT(<<"UNMATCHED", d, ToJson(Explain(Rec[d]))>>)
                 /\ FALSE
=============================================================================
