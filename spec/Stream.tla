------------------------------- MODULE Stream -------------------------------
(* The caller-side streaming protocol C06 describes: bytes arrive in          *)
(* arbitrary chunks; the caller appends them to what is pending, calls the    *)
(* scanner, drops `consumed` bytes, keeps the frame.  Feed and ScanStep are   *)
(* separate, independently enabled actions: every chunking and every amount   *)
(* of scanning between two feeds is a behaviour.                              *)
EXTENDS Frame

VARIABLES stream,     \* the whole byte stream (constant per behaviour)
          fed,        \* number of stream bytes handed to the caller so far
          pending,    \* caller's buffer: fed bytes not yet consumed
          base,       \* total bytes consumed so far
          delivered   \* frames delivered so far: [at |-> absolute 1-based start, len |-> ..]
streamVars == <<stream, fed, pending, base, delivered>>

S == INSTANCE Scanner WITH buf <- pending, i <- 0, result <- [consumed |-> -1, frame |-> [at |-> 0, len |-> 0]]   \* only its operators are used

StreamInit(s) == stream = s /\ fed = 0 /\ pending = <<>> /\ base = 0 /\ delivered = <<>>

(* a new session on the same caller object: everything starts over *)
StreamReset(s) == stream' = s /\ fed' = 0 /\ pending' = <<>> /\ base' = 0 /\ delivered' = <<>>

Feed(n) == /\ n >= 1 /\ fed + n <= Len(stream)
           /\ pending' = pending \o SubSeq(stream, fed + 1, fed + n)
           /\ fed' = fed + n
           /\ UNCHANGED <<stream, base, delivered>>

(* one scanner call on the pending bytes; SR is the scanner's answer *)
Apply(SR) == /\ pending' = SubSeq(pending, SR.consumed + 1, Len(pending))
             /\ base' = base + SR.consumed
             /\ delivered' = IF SR.frame = S!NoFrame THEN delivered
                             ELSE Append(delivered, [at |-> base + SR.frame.at, len |-> SR.frame.len])
             /\ UNCHANGED <<stream, fed>>

ScanStep == LET SR == S!ScanResult(pending) IN
            /\ (SR.consumed > 0 \/ SR.frame # S!NoFrame)      \* a call that changes nothing is a stutter
            /\ Apply(SR)

Quiescent == fed = Len(stream) /\ LET SR == S!ScanResult(pending) IN SR.consumed = 0 /\ SR.frame = S!NoFrame

(* ---- C06 ------------------------------------------------------------------ *)
Whole == S!WholeScan(stream)
ChunkInv  == Quiescent => (delivered = Whole.frames /\ base = Whole.consumed)
PrefixInv == /\ Len(delivered) <= Len(Whole.frames)
             /\ SubSeq(Whole.frames, 1, Len(delivered)) = delivered
             /\ base <= Whole.consumed
PendingIsUnconsumed == pending = SubSeq(stream, base + 1, fed)
(* delivered frames really are the stream's bytes at the reported position *)
DeliveredAreFrames == \A k \in 1..Len(delivered) :
    Classify(SubSeq(stream, delivered[k].at, delivered[k].at + delivered[k].len - 1)) = "ok"
=============================================================================
