------------------------------- MODULE BitIO -------------------------------
(* Assembler / Parser as a state machine: a bit cursor over a byte buffer,    *)
(* one action per put / parse call, the overflow branch as its own action.    *)
(* The bit-level operators live in BitOps.                                    *)
EXTENDS BitOps

(* ---- state machine: one action per call -------------------------------------- *)
VARIABLES buf, off, last     \* last: outcome of the latest call ("ok", "ovf") and value read
ioVars == <<buf, off, last>>

Put(kind, c, w) == /\ Fits(buf, off, w)
                   /\ buf' = PutSpec(buf, off, Field(kind, c, w))
                   /\ off' = off + w
                   /\ last' = [out |-> "ok", val |-> <<>>]
PutOvf(w) == /\ ~Fits(buf, off, w)
             /\ UNCHANGED <<buf, off>>
             /\ last' = [out |-> "ovf", val |-> <<>>]
Parse(kind, w, n) == /\ Fits(buf, off, w)
                     /\ off' = off + w /\ UNCHANGED buf
                     /\ last' = [out |-> "ok", val |-> ParseSpec(buf, off, kind, w, n)]
ParseOvf(w) == /\ ~Fits(buf, off, w)
               /\ UNCHANGED <<buf, off>>
               /\ last' = [out |-> "ovf", val |-> <<>>]
=============================================================================
