CONSTANTS WinBytes = 3 MaxSessions = 3
INIT Init
NEXT NegNextLazy
INVARIANT Inv
CHECK_DEADLOCK FALSE
