---------------------------- MODULE Trace_Decode ----------------------------
(* Trace validation for C02 / C14 (and the parser half of C07): decoding of   *)
(* CRC-valid frames by the real library.  A Decode event carries the frame,   *)
(* the outcome and what the harness observed about the decoded value; with    *)
(* the parse hook on, the Parse events of that call follow and must be BitIO  *)
(* parse steps over the frame's payload: cursor monotone, inside the body,    *)
(* every value equal to the bits at the cursor.                               *)
EXTENDS Decoder, Dispatch, Json, IOUtils, TLC

Rec == ndJsonDeserialize(IOEnv.TRACE)
VARIABLES l, supported, body, pcur, pending
(* supported: set of numbers of the configuration; body: payload of the frame being decoded;  *)
(* pcur: parser cursor the spec expects next; pending: the Decode event waiting for DecodeEnd *)
vars == <<l, supported, body, pcur, pending>>
IsEvent(e) == l <= Len(Rec) /\ Rec[l].ev = e /\ l' = l + 1

SeqSet(s) == {s[k] : k \in 1..Len(s)}
TraceConfig == IsEvent("Config") /\ supported' = SeqSet(Rec[l].features) /\ UNCHANGED <<body, pcur, pending>>

OutClass(r) == CASE r.out = "Empty" -> Empty
                 [] r.out = "Corrupt" -> Corrupt
                 [] r.out = "MsgNotSupported" -> NotSupported(r.carried)
                 [] r.out = "Typed" -> Typed(r.number)
                 [] OTHER -> [kind |-> r.out, n |-> -2]          \* panic / hang: in no class
DecodeOk(r) ==
    /\ Classify(r.frame) = "ok" /\ Len(r.frame) = FrameLen(r.frame)        \* harness precondition
    /\ OutClass(r) \in Class(DeclLen(r.frame), Num(r.frame), supported)    \* C14 / C02: a documented outcome of the right class
    \* the class the layout fixes (Decoder): enough body and admissible counts => typed, else Corrupt
    /\ (Num(r.frame) \in supported /\ DeclLen(r.frame) >= 2) =>
          LET ec == ExpectedClass(r.frame) IN
          /\ ec = "typed" => r.out = "Typed"
          /\ ec = "corrupt" => r.out = "Corrupt"
    \* a proper byte-truncation of a frame the encoder produced lacks bits the decoder needs (the encoder pads by < 8 bits)
    /\ r.tag = "encoder-cut" =>
          /\ Classify(r.parent) = "ok" /\ Len(r.parent) = FrameLen(r.parent)
          /\ DeclLen(r.frame) < DeclLen(r.parent) /\ Payload(r.frame) = SubSeq(Payload(r.parent), 1, DeclLen(r.frame))
          /\ DeclLen(r.frame) >= 2 => r.out = "Corrupt"
    /\ r.out = "Typed" => /\ r.number = r.variant_number                   \* Message::number() = digits of the variant name
                          /\ r.nonfinite = <<>>                            \* every float of a decoded message is finite
                          /\ r.self_eq = TRUE                              \* and it compares equal to itself
(* a decode call: the Decode event opens it, Parse events (if hooked) follow, DecodeEnd closes it *)
TraceDecode == /\ IsEvent("Decode") /\ DecodeOk(Rec[l]) = TRUE
               /\ body' = Payload(Rec[l].frame) /\ pcur' = 12 /\ pending' = Rec[l].out
               /\ UNCHANGED supported
ParseOkStep(r) ==
    /\ r.off = pcur                                   \* the cursor moved exactly over the fields read so far
    /\ r.w >= 1 /\ r.w <= r.carrier
    /\ r.off + r.w <= 8 * Len(body)                   \* never beyond the body
    /\ r.vbits = ParseSpec(body, r.off, r.kind, r.w, r.carrier)
TraceParse == /\ IsEvent("Parse")
              /\ LET r == Rec[l] IN
                 IF r.ok THEN ParseOkStep(r) = TRUE /\ pcur' = pcur + r.w
                 ELSE (r.off = pcur /\ r.off + r.w > 8 * Len(body)) = TRUE /\ pcur' = pcur    \* overflow: nothing moves
              /\ UNCHANGED <<supported, body, pending>>
TraceConsume == /\ IsEvent("Consume") /\ (Rec[l].off = pcur) = TRUE /\ pcur' = pcur + Rec[l].w
                /\ UNCHANGED <<supported, body, pending>>
(* the first failed parse ends the decode with Corrupt *)
TraceDecodeEnd == /\ IsEvent("DecodeEnd")
                  /\ (Rec[l].parse_failed => pending = "Corrupt") = TRUE
                  /\ UNCHANGED <<supported, body, pcur, pending>>

Init == l = 1 /\ supported = {} /\ body = <<>> /\ pcur = 0 /\ pending = ""
Next == TraceConfig \/ TraceDecode \/ TraceParse \/ TraceConsume \/ TraceDecodeEnd

Explain(r) == CASE r.ev = "Decode" ->
                   [frame_class |-> Classify(r.frame), dlen |-> DeclLen(r.frame), number_in_frame |-> Num(r.frame),
                    expected_class |-> ExpectedClass(r.frame),
                    supported |-> "see Config event", got |-> r.out,
                    rule |-> "dlen<2 -> Empty; unsupported n -> MsgNotSupported(n); supported n -> typed(n) or Corrupt; typed: finite floats, self-equal, number() = variant"]
                [] OTHER -> [event |-> r.ev, rule |-> "Parse events must be BitIO parse steps at the spec's cursor inside the payload"]
Accepted == LET d == TLCGet("stats").diameter IN
            IF d - 1 = Len(Rec) THEN TRUE
            ELSE /\ PrintT(<<"UNMATCHED", d, ToJson(Explain(Rec[d]))>>)
                 /\ FALSE
=============================================================================
