--------------------------- MODULE Trace_Roundtrip ---------------------------
(* Trace validation for C01: encode/decode normal form.                       *)
(*  RtA: m0 --build--> f1 --decode--> d1 --build--> f2 --decode--> d2         *)
(*  RtB: hostile frame h --decode--> d --build--> f --decode--> d2            *)
EXTENDS Frame, SigTables, Json, IOUtils, TLC

Rec == ndJsonDeserialize(IOEnv.TRACE)
VARIABLE l
IsEvent(e) == l <= Len(Rec) /\ Rec[l].ev = e /\ l' = l + 1

(* ---- Clean(m0): the precondition of the byte-for-byte clause ---------------- *)
NoDupKeys(keys) == \A i, j \in 1..Len(keys) : i # j => keys[i] # keys[j]
BiasList(p) == p = "biases" \/ p = "glo_code_phase_biases"
BiasSignalsRecognised(num, keys) ==
    \A k \in 1..Len(keys) :
        IF num = 1230 THEN \E q \in 1..4 : Glo1230[q] = <<keys[k][2], keys[k][3]>>
        ELSE SsrCode(num, <<keys[k][2], keys[k][3]>>) >= 0
(* conservative on purpose: any duplicate key in any list switches the byte-equality demand off *)
Clean(r) == \A i \in 1..Len(r.keys) :
                /\ NoDupKeys(r.keys[i].keys)
                /\ BiasList(r.keys[i].path) => BiasSignalsRecognised(r.number, r.keys[i].keys)

Has(r, f) == f \in DOMAIN r
WellFramed(f) == Classify(f) = "ok" /\ Len(f) = FrameLen(f)

RtAOk(r) ==
    \* only messages the encoder accepts are constrained (everything else is C09's business)
    r.out1 = "ok" =>
        /\ WellFramed(r.f1)
        /\ Has(r, "d1") /\ r.d1.out = "Typed" /\ r.d1.variant = r.variant          \* same type: never Corrupt / Empty / unsupported
        /\ Has(r, "out2") /\ r.out2 = "ok"                                        \* the decoded message is accepted again
        /\ Has(r, "d2") /\ r.d2.out = "Typed" /\ r.d2.variant = r.variant
        /\ r.d2.digest = r.d1.digest /\ r.eq12 = TRUE                            \* twice-decoded messages are equal, always
        /\ Clean(r) => r.f2 = r.f1                                                \* normal form: byte for byte

(* ---- Regroup: the order of satellite groups in 1059/1065 may change ----------- *)
(* stable sort by satellite id of the entries <<sat, band, attr, biasbits>>        *)
StableBySat(es) == LET sats == {es[k][1] : k \in 1..Len(es)}
                       ordered == SetToSortSeq(sats, <)
                   IN FoldLeft(LAMBDA acc, s : acc \o SelectSeq(es, LAMBDA e : e[1] = s), <<>>, ordered)
RtBOk(r) ==
    (r.d.out = "Typed" /\ Has(r, "out") /\ r.out = "ok") =>
        /\ WellFramed(r.f)
        /\ Has(r, "d2") /\ r.d2.out = "Typed" /\ r.d2.variant = r.d.variant
        /\ IF r.number \in {1059, 1065}
           THEN /\ r.d2.digest_nobias = r.d.digest_nobias
                /\ r.d2.entries = StableBySat(r.d.entries)
           ELSE r.d2.digest = r.d.digest /\ r.eq = TRUE
RtBNoPanic(r) == (Has(r, "out") => (r.out = "ok" \/ (Len(r.out) > 4 /\ SubSeq(r.out, 1, 4) = "err:"))) /\ r.d.out # "panic"

TraceA == IsEvent("RtA") /\ RtAOk(Rec[l]) = TRUE
TraceB == IsEvent("RtB") /\ (RtBOk(Rec[l]) /\ RtBNoPanic(Rec[l])) = TRUE
(* the library built WITHOUT the standard library (no default features, all message features): frames written by the full  *)
(* build's generator decode to typed messages whose re-encoding, by that build's own encoder, reproduces them               *)
NoStdOk(r) == /\ r.build = "ok"
              /\ r.class = "Typed" /\ r.n = r.number
              /\ r.rt = "same"
TraceN == IsEvent("NoStdRt") /\ NoStdOk(Rec[l]) = TRUE
Init == l = 1
Next == TraceA \/ TraceB \/ TraceN

Explain(r) == IF r.ev = "NoStdRt" THEN [rule |-> "no_std build: generator frame decodes typed and re-encodes to the same bytes", got |-> <<r.class, r.rt>>]
              ELSE IF r.ev = "RtA"
              THEN [clean |-> Clean(r), out1 |-> r.out1,
                    rule |-> "out1=ok => d1 typed of the same variant, out2=ok, d2=d1, and (Clean => f2=f1)"]
              ELSE [rule |-> "typed d re-encoded ok => decode(f) = d (1059/1065: up to stable regrouping by satellite)"]
Accepted == LET d == TLCGet("stats").diameter IN
            IF d - 1 = Len(Rec) THEN TRUE
            ELSE /\ PrintT(<<"UNMATCHED", d, ToJson(Explain(Rec[d]))>>)
                 /\ FALSE
=============================================================================
