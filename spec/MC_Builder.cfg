CONSTANTS WinBytes = 3 MaxSessions = 4
INIT Init
NEXT Next
INVARIANT Inv
CHECK_DEADLOCK FALSE
