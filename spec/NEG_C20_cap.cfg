CONSTANTS N = 3 B = 3
INIT Init
NEXT Next
INVARIANT Inv
CHECK_DEADLOCK FALSE
