----------------------------- MODULE Trace_Serde -----------------------------
(* Trace validation for C20: serialising a message with serde and reading it   *)
(* back gives the same message.  The event carries digests of the canonical    *)
(* value trees before and after, and the library's PartialEq verdict.          *)
EXTENDS Integers, Sequences, Json, IOUtils, TLC
Rec == ndJsonDeserialize(IOEnv.TRACE)
VARIABLE l
IsEvent(e) == l <= Len(Rec) /\ Rec[l].ev = e /\ l' = l + 1
SerdeOk(r) == /\ r.ser = "ok" /\ r.de = "ok"
              /\ r.tree_out = r.tree_in            \* structurally the same message
              /\ r.eq = TRUE                       \* and equal by the library's PartialEq
TraceSerde == IsEvent("Serde") /\ SerdeOk(Rec[l]) = TRUE
Init == l = 1
Next == TraceSerde
Explain(r) == [variant |-> r.variant, via |-> r.via, ser |-> r.ser, de |-> r.de, rule |-> "De(Ser(m)) = m"]
Accepted == LET d == TLCGet("stats").diameter IN
            IF d - 1 = Len(Rec) THEN TRUE
            ELSE /\ PrintT(<<"UNMATCHED", d, ToJson(Explain(Rec[d]))>>)
                 /\ FALSE
=============================================================================
