------------------------------ MODULE BiasList ------------------------------
(* The three hand-written list codecs (src/df/dfs/df_msg1059_biases.rs,        *)
(* df_msg1065_biases.rs, df_msg1230_biases.rs) at bit level.                    *)
(* An entry is <<sat, band, attr, k>>: bias = k * 0.01 m (1059/1065, 14-bit     *)
(* two's complement) or k * 0.02 m (1230, 16 bit; sat unused).                  *)
EXTENDS Integers, Sequences, SequencesExt, FiniteSets, Bits, SigTables

SatBits(num) == IF num = 1059 THEN 6 ELSE 5
MaxSat(num)  == IF num = 1059 THEN 63 ELSE 31
Cap == 390

Code(num, e) == SsrCode(num, <<e[2], e[3]>>)
(* the property's precondition: recognised signals, distinct (satellite, signal) keys *)
Pre(num, es) == /\ \A k \in 1..Len(es) : IF num = 1230 THEN \E q \in 1..4 : Glo1230[q] = <<es[k][2], es[k][3]>>
                                          ELSE Code(num, es[k]) >= 0
                /\ \A i, j \in 1..Len(es) : i # j => <<es[i][1], es[i][2], es[i][3]>> # <<es[j][1], es[j][2], es[j][3]>>

Twos(k, w) == ToBitsU((k + 2^w) % 2^w, w)
Sats(es) == {es[k][1] : k \in 1..Len(es)}
OfSat(es, s) == SelectSeq(es, LAMBDA e : e[1] = s)

(* inputs no frame can represent: the encoder must answer with an error *)
MustErr(num, es) ==
    IF num = 1230 THEN FALSE
    ELSE \/ \E k \in 1..Len(es) : es[k][1] > MaxSat(num)            \* satellite id wider than its field
         \/ Cardinality(Sats(es)) > 63                              \* 6-bit satellite count
(* more than 31 entries for one satellite do not fit ONE group (5-bit count); the code answers with an error,  *)
(* an encoder that split them over several groups would also keep every entry: either is admissible            *)
OneGroupEach(num, es) == num = 1230 \/ \A s \in Sats(es) : Len(OfSat(es, s)) <= 31

(* bit-exact encoding of a list satisfying Pre and not MustErr *)
Enc(num, es) ==
    IF num = 1230
    THEN LET present(q) == \E k \in 1..Len(es) : <<es[k][2], es[k][3]>> = Glo1230[q]
             kOf(q) == (CHOOSE k \in 1..Len(es) : <<es[k][2], es[k][3]>> = Glo1230[q])
         IN [q \in 1..4 |-> IF present(q) THEN 1 ELSE 0]
            \o FoldLeft(LAMBDA acc, q : IF present(q) THEN acc \o Twos(es[kOf(q)][4], 16) ELSE acc, <<>>, <<1, 2, 3, 4>>)
    ELSE LET ss == SetToSortSeq(Sats(es), <)
             group(s) == LET g == OfSat(es, s) IN
                         ToBitsU(s, SatBits(num)) \o ToBitsU(Len(g), 5)
                         \o FoldLeft(LAMBDA acc, e : acc \o ToBitsU(Code(num, e), 5) \o Twos(e[4], 14), <<>>, g)
         IN ToBitsU(Len(ss), 6) \o FoldLeft(LAMBDA acc, s : acc \o group(s), <<>>, ss)

(* what decoding the encoding must return: the same entries grouped by ascending satellite, *)
(* inside a group in list order (1230: in mask order)                                        *)
Regrouped(num, es) ==
    IF num = 1230
    THEN FoldLeft(LAMBDA acc, q : acc \o SelectSeq(es, LAMBDA e : <<e[2], e[3]>> = Glo1230[q]), <<>>, <<1, 2, 3, 4>>)
    ELSE FoldLeft(LAMBDA acc, s : acc \o OfSat(es, s), <<>>, SetToSortSeq(Sats(es), <))
=============================================================================
