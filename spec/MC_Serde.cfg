CONSTANTS N = 3 B = 6
INIT Init
NEXT Next
INVARIANT Inv
CHECK_DEADLOCK FALSE
