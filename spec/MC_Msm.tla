------------------------------- MODULE MC_Msm -------------------------------
(* C10 at design level, small universe: for every admissible (S, G, C) and     *)
(* every order of the cell list the code's index arithmetic yields the          *)
(* declarative row-major mask, decoding the masks returns the cells in standard *)
(* order; every single broken precondition is answered by its error.            *)
EXTENDS Msm, TLC
VARIABLES S, G, C, perm
Cells == (1..NSat) \X (1..NSig)
Init == /\ S \in (SUBSET (1..NSat)) \ {{}} /\ G \in (SUBSET (1..NSig)) \ {{}}
        /\ C \in SUBSET (S \X G)
        /\ {c[1] : c \in C} = S /\ {c[2] : c \in C} = G          \* every satellite and signal used
        /\ Cardinality(S) * Cardinality(G) <= MaxCells
        /\ perm \in {"asc", "desc"}
Next == UNCHANGED <<S, G, C, perm>>
CellSeq == IF perm = "asc" THEN SetToSortSeq(C, CellLess) ELSE Reverse(SetToSortSeq(C, CellLess))
SatSeq == IF perm = "asc" THEN SetToSortSeq(S, <) ELSE Reverse(SetToSortSeq(S, <))
AlgIsDeclarative == CellMaskAlg(S, G, CellSeq) = CellMask(S, G, C)
DecodeInverse == CellsFromMask(S, G, CellMask(S, G, C)) = CellRowOrder(C)
NoErrorOnValid == ErrorsOf(SatSeq, CellSeq) = {}
(* each broken precondition yields (at least) its own error *)
ErrorsMatch ==
    /\ "InvalidSatelliteId" \in ErrorsOf(SatSeq \o <<0>>, CellSeq)
    /\ "InvalidSatelliteId" \in ErrorsOf(SatSeq, CellSeq \o << <<NSat + 1, 1>> >>)
    /\ "InvalidSignalId" \in ErrorsOf(SatSeq, CellSeq \o << <<SatSeq[1], 0>> >>)
    /\ "DuplicateSatellite" \in ErrorsOf(SatSeq \o <<SatSeq[1]>>, CellSeq)
    /\ "DuplicateSatelliteSignal" \in ErrorsOf(SatSeq, CellSeq \o <<CellSeq[1]>>)
    /\ (Cardinality(S) < NSat) => "SatelliteMismatch" \in ErrorsOf(SatSeq \o <<CHOOSE s \in (1..NSat) \ S : TRUE>>, CellSeq)
Inv == AlgIsDeclarative /\ DecodeInverse /\ NoErrorOnValid /\ ErrorsMatch
=============================================================================
