----------------------------- MODULE MC_Features -----------------------------
(* C19 at design level, on the relation extracted from the source (Gates.tla): *)
(* the hand-maintained cfg(any(...)) lists in src/msg/mod.rs must name every   *)
(* message feature that uses the shared module they guard, and the feature     *)
(* list, the message! table, the include_msg! list and all_msgs must agree.    *)
EXTENDS Gates, Integers, Sequences, FiniteSets, TLC
VARIABLE x
Init == x = 0
Next == UNCHANGED x
GateOf(m) == IF \E i \in 1..Len(GateList) : GateList[i].module = m
             THEN GateList[CHOOSE i \in 1..Len(GateList) : GateList[i].module = m].gate ELSE {}
Gated(m) == \E i \in 1..Len(GateList) : GateList[i].module = m
(* every feature that imports a gated shared module is in that module's gate list *)
GatesCoverUses == \A i \in 1..Len(UsesList) : \A m \in UsesList[i].uses : Gated(m) => UsesList[i].number \in GateOf(m)
(* and no gate list names a feature that does not exist *)
GatesNameFeatures == \A i \in 1..Len(GateList) : GateList[i].gate \subseteq Features
ListsAgree == /\ Features = AllMsgs /\ Features = Includes
              /\ Chained = {}                                     \* no message feature switches another feature on
              /\ {r[4] : r \in TableRows} = Features
              /\ \A r \in TableRows : r[1] = r[2] /\ r[2] = r[3] /\ r[3] = r[4]       \* feature literal, variant, module, number
              /\ \A p \in IncludePairs : p[1] = p[2]
              /\ Cardinality(TableRows) = Cardinality(Features)
ASSUME GatesCoverUses
ASSUME GatesNameFeatures
ASSUME ListsAgree
=============================================================================
