----------------------------- MODULE SigTables -----------------------------
(* Signal identifier tables, transcribed from the RTCM 10403.3 MSM signal     *)
(* tables (DF395 signal mask positions, with the BeiDou / NavIC amendments)   *)
(* and the SSR code-bias signal and tracking mode indicators (DF380 / DF381). *)
(* A descriptor is <<band, attribute code point>>; attributes are given here  *)
(* as one-character strings and mapped to code points by CP.                  *)
EXTENDS Integers, Sequences, FiniteSets

CP(s) == CASE s = "A" -> 65 [] s = "B" -> 66 [] s = "C" -> 67 [] s = "D" -> 68 [] s = "E" -> 69
           [] s = "I" -> 73 [] s = "L" -> 76 [] s = "M" -> 77 [] s = "N" -> 78 [] s = "P" -> 80
           [] s = "Q" -> 81 [] s = "S" -> 83 [] s = "W" -> 87 [] s = "X" -> 88 [] s = "Y" -> 89 [] s = "Z" -> 90

E(pos, band, attr) == <<pos, band, CP(attr)>>

Gnss == {"gps", "glo", "gal", "sbas", "qzss", "bds", "navic"}

(* position -> descriptor, as triples <<position, band, attribute>> *)
Std == [g \in Gnss |->
  CASE g = "gps" -> { E(2,1,"C"), E(3,1,"P"), E(4,1,"W"), E(8,2,"C"), E(9,2,"P"), E(10,2,"W"),
                      E(15,2,"S"), E(16,2,"L"), E(17,2,"X"), E(22,5,"I"), E(23,5,"Q"), E(24,5,"X"),
                      E(30,1,"S"), E(31,1,"L"), E(32,1,"X") }
    [] g = "glo" -> { E(2,1,"C"), E(3,1,"P"), E(8,2,"C"), E(9,2,"P") }
    [] g = "gal" -> { E(2,1,"C"), E(3,1,"A"), E(4,1,"B"), E(5,1,"X"), E(6,1,"Z"),
                      E(8,6,"C"), E(9,6,"A"), E(10,6,"B"), E(11,6,"X"), E(12,6,"Z"),
                      E(14,7,"I"), E(15,7,"Q"), E(16,7,"X"), E(18,8,"I"), E(19,8,"Q"), E(20,8,"X"),
                      E(22,5,"I"), E(23,5,"Q"), E(24,5,"X") }
    [] g = "sbas" -> { E(2,1,"C"), E(22,5,"I"), E(23,5,"Q"), E(24,5,"X") }
    [] g = "qzss" -> { E(2,1,"C"), E(9,6,"S"), E(10,6,"L"), E(11,6,"X"), E(15,2,"S"), E(16,2,"L"), E(17,2,"X"),
                       E(22,5,"I"), E(23,5,"Q"), E(24,5,"X"), E(30,1,"S"), E(31,1,"L"), E(32,1,"X") }
    [] g = "bds" -> { E(2,2,"I"), E(3,2,"Q"), E(4,2,"X"), E(8,6,"I"), E(9,6,"Q"), E(10,6,"X"),
                      E(14,7,"I"), E(15,7,"Q"), E(16,7,"X"), E(22,5,"D"), E(23,5,"P"), E(24,5,"X"), E(25,7,"D"),
                      E(30,1,"D"), E(31,1,"P"), E(32,1,"X") }
    [] g = "navic" -> { E(22,5,"A") } ]

(* the examples the property itself names *)
Pinned == /\ {E(2,1,"C"), E(10,2,"W"), E(24,5,"X")} \subseteq Std["gps"]
          /\ {E(2,1,"C"), E(3,1,"P"), E(8,2,"C"), E(9,2,"P")} \subseteq Std["glo"]

Desc(t) == <<t[2], t[3]>>
PosOf(g, d) == IF \E t \in Std[g] : Desc(t) = d THEN (CHOOSE t \in Std[g] : Desc(t) = d)[1] ELSE 0
DescAt(g, p) == IF \E t \in Std[g] : t[1] = p THEN Desc(CHOOSE t \in Std[g] : t[1] = p) ELSE <<0, 0>>
Recognised(g) == {Desc(t) : t \in Std[g]}

(* table sanity: injective both ways, positions inside 2..32 *)
TableOk(T) == /\ \A a, b \in T : (a[1] = b[1] \/ Desc(a) = Desc(b)) => a = b
              /\ \A a \in T : a[1] \in 2..32

(* ordering the property demands: recognised by position, then all unrecognised *)
(* (among unrecognised ones any strict total order; the code uses (band, attr))  *)
CmpRecognised(g, a, b) == IF PosOf(g, a) < PosOf(g, b) THEN -1 ELSE IF PosOf(g, a) > PosOf(g, b) THEN 1 ELSE 0

(* SSR code-bias signal and tracking mode indicators: code -> descriptor *)
SsrGps == { E(0,1,"C"), E(1,1,"P"), E(2,1,"W"), E(5,2,"C"), E(6,2,"D"), E(7,2,"S"), E(8,2,"L"), E(9,2,"X"),
            E(10,2,"P"), E(11,2,"W"), E(14,5,"I"), E(15,5,"Q") }
SsrGlo == { E(0,1,"C"), E(1,1,"P"), E(2,2,"C"), E(3,2,"P") }
SsrTable(num) == IF num = 1059 THEN SsrGps ELSE IF num = 1065 THEN SsrGlo ELSE {}
SsrCode(num, d) == IF \E t \in SsrTable(num) : Desc(t) = d THEN (CHOOSE t \in SsrTable(num) : Desc(t) = d)[1] ELSE -1
(* 1230: the four FDMA signals, mask order 1C 1P 2C 2P *)
Glo1230 == << <<1, CP("C")>>, <<1, CP("P")>>, <<2, CP("C")>>, <<2, CP("P")>> >>
=============================================================================
