------------------------------ MODULE Trace_Link ------------------------------
(* Trace validation of end-to-end sessions (real MessageBuilder -> channel ->   *)
(* real scanner -> real decoder) against the Link composition, real profile.    *)
EXTENDS Link, Json, IOUtils, TLC
Rec == ndJsonDeserialize(IOEnv.TRACE)
VARIABLES l, digests
IsEvent(e) == l <= Len(Rec) /\ Rec[l].ev = e /\ l' = l + 1
AsResult(r) == [consumed |-> r.consumed, frame |-> IF r.at < 0 THEN R!S!NoFrame ELSE [at |-> r.at + 1, len |-> r.len]]
LinkReset == wire' = <<>> /\ sent' = <<>> /\ fed' = 0 /\ pending' = <<>> /\ base' = 0 /\ delivered' = <<>>
TraceInit == IsEvent("LinkInit") /\ LinkReset /\ digests' = <<>>
(* what the real builder put on the wire must be a frame of the spec: MkFrame of its own payload *)
TraceSend == /\ IsEvent("Send")
             /\ LET f == Rec[l].frame IN
                /\ (Classify(f) = "ok" /\ Len(f) = FrameLen(f) /\ f = MkFrame(Payload(f), 0)) = TRUE
                /\ Send(Payload(f))
             /\ digests' = Append(digests, Rec[l].digest)
TraceNoise == IsEvent("Noise") /\ Noise(Rec[l].bytes) /\ UNCHANGED digests
TraceRecv == IsEvent("Recv") /\ Recv(Rec[l].n) /\ UNCHANGED digests
TraceScan == /\ IsEvent("Scan")
             /\ LET SR == AsResult(Rec[l]) IN
                /\ (Rec[l].at >= -1 /\ SR = R!S!ScanResultFast(pending)) = TRUE
                /\ IF SR.consumed > 0 \/ SR.frame # R!S!NoFrame THEN R!Apply(SR) /\ UNCHANGED sent ELSE UNCHANGED linkVars
             /\ UNCHANGED digests
TraceEnd == /\ IsEvent("LinkEnd")
            /\ LET r == Rec[l] IN
               (/\ Safety
                /\ AllIn /\ delivered = sent                                  \* everything sent was delivered
                /\ r.delivered = [k \in 1..Len(delivered) |-> <<delivered[k].at, delivered[k].len>>]
                /\ r.base = base
                /\ r.digests = digests) = TRUE                                \* and decodes to the messages that were sent
            /\ UNCHANGED <<linkVars, digests>>
Init == l = 1 /\ LinkInit /\ digests = <<>>
Next == TraceInit \/ TraceSend \/ TraceNoise \/ TraceRecv \/ TraceScan \/ TraceEnd
Explain(r) == [event |-> r.ev, rule |-> "each event must be a Link step; at LinkEnd everything sent has been delivered, in order, and decodes to the sent messages"]
Accepted == LET d == TLCGet("stats").diameter IN
            IF d - 1 = Len(Rec) THEN TRUE
            ELSE /\ PrintT(<<"UNMATCHED", d, ToJson(Explain(Rec[d]))>>)
                 /\ FALSE
=============================================================================
