------------------------------ MODULE Trace_Msm ------------------------------
(* Trace validation for C10: MSM masks and row order for any input order.       *)
(* Signal positions come from the spec's own tables (SigTables!Std).            *)
EXTENDS SigTables, Json, IOUtils, TLC

M == INSTANCE Msm WITH NSat <- 64, NSig <- 32, MaxCells <- 64

Rec == ndJsonDeserialize(IOEnv.TRACE)
VARIABLE l
IsEvent(e) == l <= Len(Rec) /\ Rec[l].ev = e /\ l' = l + 1

SatIds(r) == [k \in 1..Len(r.sats) |-> r.sats[k][1]]
CellKeys(r) == [k \in 1..Len(r.cells) |-> <<r.cells[k][1], PosOf(r.gnss, <<r.cells[k][2], r.cells[k][3]>>)>>]
ErrOf(out) == IF Len(out) > 4 /\ SubSeq(out, 1, 4) = "err:" THEN SubSeq(out, 5, Len(out)) ELSE ""

(* rows: <<sat, digest>> and <<sat, band, attr, digest>> *)
SortedSats(rows) == \A k \in 1..(Len(rows) - 1) : rows[k][1] < rows[k + 1][1]
CellKey(g, row) == <<row[1], PosOf(g, <<row[2], row[3]>>)>>
SortedCells(g, rows) == \A k \in 1..(Len(rows) - 1) : M!CellLess(CellKey(g, rows[k]), CellKey(g, rows[k + 1]))

MsmOk(r) ==
    LET sats == SatIds(r)
        cells == CellKeys(r)
        errs == M!ErrorsOf(sats, cells)
        S == M!SeqSet(sats)
        G == {cells[k][2] : k \in 1..Len(cells)}
        C == M!SeqSet(cells)
    IN
    /\ r.gnss \in Gnss
    \* a descriptor the library recognises but the standard table transcribed in SigTables does not list
    \* (an extension such as NavIC 9A) has no position known to the spec: such an event is out of scope
    /\ IF \E k \in 1..Len(r.cells) : r.lib_valid[k] = 1 /\ cells[k][2] = 0 THEN TRUE
       ELSE IF errs # {}
       THEN ErrOf(r.out) \in errs                                  \* rejected with a matching error, never encoded
       ELSE /\ r.out = "ok"
            /\ r.satmask = M!SatMask(S)                            \* bit s (MSB = 1) set exactly for s in S
            /\ r.sigmask = M!SigMask(G)
            /\ (S # {}) => r.cellmask = M!CellMask(S, G, C)        \* row-major S x G incidence
            /\ r.dec = "typed"
            \* decoding returns the same rows, ascending satellite then ascending signal, each with its own payload
            /\ SortedSats(r.dec_sats) /\ M!SeqSet(r.dec_sats) = M!SeqSet(r.sats)
            /\ SortedCells(r.gnss, r.dec_cells) /\ M!SeqSet(r.dec_cells) = M!SeqSet(r.cells)
            /\ Len(r.dec_sats) = Len(r.sats) /\ Len(r.dec_cells) = Len(r.cells)

TraceMsm == IsEvent("Msm") /\ MsmOk(Rec[l]) = TRUE
Init == l = 1
Next == TraceMsm
Explain(r) == [errors_expected |-> M!ErrorsOf(SatIds(r), CellKeys(r)), out |-> r.out, class |-> r.class,
               rule |-> "invalid input -> one of the matching errors; valid -> masks per standard, rows sorted by satellite then signal position, payload follows its key"]
Accepted == LET d == TLCGet("stats").diameter IN
            IF d - 1 = Len(Rec) THEN TRUE
            ELSE /\ PrintT(<<"UNMATCHED", d, ToJson(Explain(Rec[d]))>>)
                 /\ FALSE
=============================================================================
