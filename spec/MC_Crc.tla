------------------------------- MODULE MC_Crc -------------------------------
(* C03 / C04 on the REAL constants: facts about CRC-24Q and the real frame    *)
(* profile that TLC evaluates exhaustively over the stated quantifier.        *)
EXTENDS Frame, TLC

CONSTANTS Lengths,      \* payload lengths for the real-profile frame sweep
          BurstMax,     \* exhaustive burst cross-check: bursts up to this length ...
          CodeBits      \* ... at every start of a codeword of this many bits
VARIABLE x
Init == x = 0
Next == UNCHANGED x

(* ---- the table is the bitwise definition; known check value ---------------- *)
TableIsBitwise == \A i \in 0..255 : Table[i] = CrcBitwise(<<i>>)
CheckValue == Crc(<<49, 50, 51, 52, 53, 54, 55, 56, 57>>) = 13494019          \* "123456789" -> 0xCDE703
           /\ CrcBitwise(<<49, 50, 51, 52, 53, 54, 55, 56, 57>>) = 13494019
Pattern(n, seed) == [k \in 1..n |-> (k * 37 + seed * 101 + (k \div 7) * 13) % 256]
ByteEqualsBitwise == \A n \in {0, 1, 2, 3, 7, 64, 300} : \A s \in 0..3 :
                        Crc(Pattern(n, s)) = CrcBitwise(Pattern(n, s))

(* ---- T1: x^k mod g is neither 0 nor 1 for 0 < k < 8*1029 ------------------- *)
(* => no error polynomial x^i or x^i + x^j (i # j inside one frame) is a       *)
(*    multiple of g: every 1- and 2-bit error changes the remainder            *)
MaxBits == 8 * 1029
T1 == LET step(acc, k) == [r |-> MulX(acc.r), ok |-> acc.ok /\ MulX(acc.r) \notin {0, 1}]
          res == FoldLeft(step, [r |-> 1, ok |-> TRUE], [k \in 1..(MaxBits - 1) |-> k])
      IN res.ok
(* ---- T2: g has an even number of terms => (x+1) | g => odd weight detected -- *)
T2 == (FoldLeft(LAMBDA a, b : a + b, 0, ToBitsU(Poly, 25))) % 2 = 0 /\ ToBitsU(Poly, 25)[1] = 1
(* ---- T3: g(0) = 1 and deg g = 24: a burst b(x)*x^s, 0 # deg b < 24, is never  *)
(*      a multiple of g.  Cross-check of the argument, exhaustive on a small    *)
(*      scope: the remainder of every burst error pattern is non-zero.          *)
GOdd == Poly % 2 = 1
ErrBits(start, pat) == [k \in 1..CodeBits |-> IF k >= start /\ k < start + Len(pat) THEN pat[k - start + 1] ELSE 0]
Bursts(len) == {<<1>> \o mid \o <<1>> : mid \in [1..(len - 2) -> {0, 1}]}
T3 == GOdd /\ \A len \in 2..BurstMax : \A pat \in Bursts(len) : \A s \in 1..(CodeBits - len + 1) :
                 CrcBitwiseFrom(0, ErrBits(s, pat)) # 0
(* ---- linearity (init 0, no final xor): Crc(a xor e) = Crc(a) xor Crc(e) ----- *)
XorBytes(a, b) == [k \in 1..Len(a) |-> a[k] ^^ b[k]]
Linear == \A n \in {1, 5, 40} : \A s \in 0..2 :
             Crc(XorBytes(Pattern(n, s), Pattern(n, s + 5))) = Crc(Pattern(n, s)) ^^ Crc(Pattern(n, s + 5))

(* ---- real-profile frames of every listed payload length --------------------- *)
FrameSweep == \A L \in Lengths :
    LET f == MkFrame(Pattern(L, L), 0) IN
    /\ Classify(f) = "ok" /\ FrameLen(f) = L + 6 /\ Len(f) = L + 6 /\ Payload(f) = Pattern(L, L)
    /\ \A cut \in {1, 2, 3, 5, (L + 5)} \cap 1..(L + 5) : Classify(SubSeq(f, 1, cut)) = "incomplete"
    /\ Classify(f \o <<0, 211, 255>>) = "ok" /\ Observe(f \o <<0, 211, 255>>) = Observe(f)
    \* reserved bits are covered by the checksum and do not influence acceptance
    /\ \A rsv \in {1, 32, 63} : /\ Classify(MkFrame(Pattern(L, L), rsv)) = "ok"
                                /\ DeclLen(MkFrame(Pattern(L, L), rsv)) = L
                                /\ Classify([f EXCEPT ![2] = f[2] + 4 * rsv]) = "notvalid"
    \* a wrong checksum bit / wrong preamble
    /\ Classify([f EXCEPT ![L + 6] = f[L + 6] ^^ 1]) = "notvalid"
    /\ Classify([f EXCEPT ![1] = 210]) = "notpre"
    /\ Num(f) = IF L >= 2 THEN f[4] * 16 + f[5] \div 16 ELSE NoNum

ASSUME TableIsBitwise
ASSUME CheckValue
ASSUME ByteEqualsBitwise
ASSUME T1
ASSUME T2
ASSUME T3
ASSUME Linear
ASSUME FrameSweep
=============================================================================
