------------------------------ MODULE MC_BitIO ------------------------------
(* C07 at design level: the transcribed loops equal the declarative           *)
(* definitions; read-after-write returns the value; nothing else is touched;  *)
(* overflow leaves the state alone.  Small scope, exhaustive.                 *)
EXTENDS BitIO, TLC

CONSTANTS BufLen, Carrier_, MaxW, Backgrounds
N == Carrier_

Kinds == {"u", "s", "sm"}
Bufs == {[k \in 1..BufLen |-> bg] : bg \in Backgrounds} \cup {[k \in 1..BufLen |-> (k * 83) % 256]}
(* carrier values: every value for small carriers *)
Carriers == [1..N -> {0, 1}]

Init == /\ buf \in Bufs /\ off \in 0..(8 * BufLen) /\ last = [out |-> "init", val |-> <<>>]
Next == \/ \E kind \in Kinds, c \in Carriers, w \in 1..MaxW :
              (kind = "sm" => w >= 2) /\ (Put(kind, c, w) \/ PutOvf(w))
        \/ \E kind \in Kinds, w \in 1..MaxW : (kind = "sm" => w >= 2) /\ (Parse(kind, w, N) \/ ParseOvf(w))

(* checked on every (buf, off) reachable in one step from Init: for all kinds, values, widths *)
AlgEqualsSpec ==
    \A kind \in Kinds, w \in 1..MaxW : ((kind = "sm" => w >= 2) /\ Fits(buf, off, w)) =>
        /\ ParseAlg(buf, off, kind, w, N) = ParseSpec(buf, off, kind, w, N)
        /\ \A c \in Carriers :
             \* the loop writes the declarative field for every representable value, and for u/s
             \* simply the low w bits of anything
             /\ (Repr(kind, c, w) \/ kind # "sm") => PutAlg(buf, off, kind, c, w) = PutSpec(buf, off, Field(kind, c, w))
             /\ PutFast(buf, off, Field(kind, c, w)) = PutSpec(buf, off, Field(kind, c, w))
             \* read-after-write: representable values come back (sm: -0 cannot be written at all)
             /\ Repr(kind, c, w) => ParseSpec(PutSpec(buf, off, Field(kind, c, w)), off, kind, w, N) = c
             \* frame condition: every bit outside [off, off+w) is unchanged
             /\ LET nb == PutAlg(buf, off, kind, c, w) IN
                \A g \in 0..(8 * BufLen - 1) : (g < off \/ g >= off + w) => BitAt(nb, g) = BitAt(buf, g)
StepInv == /\ last.out = "ovf" => TRUE
           /\ off <= 8 * BufLen
Inv == (last.out \in {"init"} => AlgEqualsSpec) /\ StepInv
(* an overflowing call changes neither buffer nor cursor *)
OvfFrame == [][last'.out = "ovf" => UNCHANGED <<buf, off>>]_ioVars
AtInit == last.out = "init"
NoNext == UNCHANGED ioVars
(* seed state + one fan-out step, so that TLC's workers share the (buf, off) cases *)
SeedInit == buf = [k \in 1..BufLen |-> 0] /\ off = 0 /\ last = [out |-> "seed", val |-> <<>>]
SeedNext == \/ last.out = "seed" /\ off' \in 0..(8 * BufLen) /\ last' = [out |-> "seed2", val |-> <<>>] /\ UNCHANGED buf
            \/ last.out = "seed2" /\ buf' \in Bufs /\ last' = [out |-> "init", val |-> <<>>] /\ UNCHANGED off
(* the step machine itself agrees with the loops *)
StepIsAlg == [][(last'.out = "ok" /\ buf' # buf) => \E kind \in Kinds, c \in Carriers, w \in 1..MaxW : buf' = PutAlg(buf, off, kind, c, w) /\ off' = off + w]_ioVars
=============================================================================
