CONSTANT MaxH = 4
INIT Init
NEXT Next
CHECK_DEADLOCK FALSE
