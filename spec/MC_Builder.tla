----------------------------- MODULE MC_Builder -----------------------------
(* C12 / C09 at design level: all histories of build calls over an abstract   *)
(* pool, on a toy window.  A pool entry is a list of field bit strings plus   *)
(* how the build ends.                                                        *)
EXTENDS Builder, TLC

CONSTANTS MaxSessions
Zs(n_) == Zeros(n_)
Pool == <<
   [puts |-> <<Ones(5)>>,                      end |-> "finish"],   \* short, unaligned
   [puts |-> <<Ones(8)>>,                      end |-> "finish"],   \* byte aligned
   [puts |-> <<Ones(8), Ones(5)>>,             end |-> "finish"],   \* 13 bits
   [puts |-> <<Ones(8), Ones(8), Ones(7)>>,    end |-> "finish"],   \* fills the window but one bit
   [puts |-> <<>>,                             end |-> "abort"],    \* fails before the first put
   [puts |-> <<Ones(8), Ones(8)>>,             end |-> "abort"],    \* fails after most of the body
   [puts |-> <<Ones(8), Ones(8), Ones(8), Ones(3)>>, end |-> "finish"],  \* overflows the window
   [puts |-> <<Zs(3), Ones(1), Zs(5)>>,        end |-> "finish"] >>

VARIABLES m, k, sessions
mcVars == <<bVars, m, k, sessions>>

Init == BuilderInit /\ m = 0 /\ k = 0 /\ sessions = 0
StartB(B) == /\ phase = "idle" /\ sessions < MaxSessions
             /\ \E j \in 1..Len(Pool) : m' = j
             /\ B /\ k' = 0 /\ sessions' = sessions + 1
Start == StartB(Begin)
StepPut == /\ phase = "building" /\ k < Len(Pool[m].puts)
           /\ (PutOk(Pool[m].puts[k + 1]) \/ PutOvf(Len(Pool[m].puts[k + 1])))
           /\ k' = k + 1 /\ UNCHANGED <<m, sessions>>
EndIt == /\ phase = "building" /\ k = Len(Pool[m].puts)
         /\ IF Pool[m].end = "finish" THEN Finish ELSE Abort("SomeError")
         /\ UNCHANGED <<m, k, sessions>>
Next == Start \/ StepPut \/ EndIt

(* C12: whatever happened before, a finished build returns the fresh builder's frame *)
HistoryIndependent == result.out = "ok" => result.frame = FreshFrame(Pool[m].puts)
(* C09: every emitted frame is well formed; an overflowing build emits nothing *)
EmittedWellFormed == result.out = "ok" => WellFormedFrame(result.frame)
OverflowNoFrame == (result.out = "err" /\ result.err = "BufferOverflow") => result.frame = <<>>
Inv == HistoryIndependent /\ EmittedWellFormed /\ OverflowNoFrame

(* ---- must-fail variants of the prologue --------------------------------------- *)
BeginNoClear == /\ phase = "idle" /\ data' = data /\ hasRun' = TRUE
                /\ phase' = "building" /\ cur' = 0 /\ unk' = {} /\ result' = NoResult
NegNextNoClear == StartB(BeginNoClear) \/ StepPut \/ EndIt
(* has_run set only by a successful build *)
BeginLazy == /\ phase = "idle" /\ data' = (IF hasRun THEN Clear(data) ELSE data) /\ hasRun' = hasRun
             /\ phase' = "building" /\ cur' = 0 /\ unk' = {} /\ result' = NoResult
EndItLazy == /\ phase = "building" /\ k = Len(Pool[m].puts)
             /\ IF Pool[m].end = "finish"
                THEN /\ data' = Finished(data, cur)
                     /\ result' = [out |-> "ok", frame |-> SubSeq(Finished(data, cur), 1, DataLen(cur) + 6), err |-> ""]
                     /\ phase' = "idle" /\ hasRun' = TRUE /\ UNCHANGED <<cur, unk>>
                ELSE Abort("SomeError")
             /\ UNCHANGED <<m, k, sessions>>
NegNextLazy == StartB(BeginLazy) \/ StepPut \/ EndItLazy
(* clear only the payload window, not the trailing checksum area *)
ClearShort(d) == [j \in 1..BufBytes |-> IF j = 1 \/ j > 3 + 2 THEN d[j] ELSE 0]
BeginShort == /\ phase = "idle" /\ data' = (IF hasRun THEN ClearShort(data) ELSE data) /\ hasRun' = TRUE
              /\ phase' = "building" /\ cur' = 0 /\ unk' = {} /\ result' = NoResult
NegNextShort == StartB(BeginShort) \/ StepPut \/ EndIt
=============================================================================
