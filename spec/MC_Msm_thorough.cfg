CONSTANTS NSat = 5 NSig = 3 MaxCells = 8
INIT Init
NEXT Next
INVARIANT Inv
CHECK_DEADLOCK FALSE
