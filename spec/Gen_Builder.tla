----------------------------- MODULE Gen_Builder -----------------------------
(* Behaviour generation for C12 (spec -> implementation): every history of up  *)
(* to MaxH build calls over the abstract message classes of the Builder model, *)
(* with the outcome class the specification expects of each call.  The harness *)
(* binds every class to concrete messages, replays each history on one real    *)
(* MessageBuilder and records it; the recording is then trace-validated.       *)
(*   A short, bit length not a multiple of 8     B byte aligned                *)
(*   C long, unaligned, dense                    D fails before the first put  *)
(*   E fails right after the header              F fails after most of the body *)
EXTENDS Integers, Sequences, TLC, Json
CONSTANT MaxH
Classes == <<"A", "B", "C", "D", "E", "F">>
Outcome(c) == IF c \in {"A", "B", "C"} THEN "ok" ELSE "err"
Histories == UNION {[1..n -> 1..Len(Classes)] : n \in 1..MaxH}
VARIABLE done
Init == done = FALSE
Next == /\ ~done
        /\ \A h \in Histories :
              PrintT(<<"REPLAY", ToJson([history |-> [i \in 1..Len(h) |-> Classes[h[i]]],
                                         expect  |-> [i \in 1..Len(h) |-> Outcome(Classes[h[i]])]])>>)
        /\ done' = TRUE
=============================================================================
