----------------------------- MODULE Trace_Lists -----------------------------
(* Trace validation for C15: count-prefixed lists and strings.  The position   *)
(* and width of each count field, the capacity and the element width come from *)
(* the extracted Layouts (structure knowledge); what is demanded of them is     *)
(* written here.                                                                *)
EXTENDS Frame, BitOps, Layouts, Json, IOUtils, TLC

Rec == ndJsonDeserialize(IOEnv.TRACE)
VARIABLE l
IsEvent(e) == l <= Len(Rec) /\ Rec[l].ev = e /\ l' = l + 1

HasEntry(r) == \E i \in 1..Len(ListTable) : ListTable[i].number = r.number /\ ListTable[i].path = r.path
TableEntry(r) == ListTable[CHOOSE i \in 1..Len(ListTable) : ListTable[i].number = r.number /\ ListTable[i].path = r.path]
(* Lists that follow a variable-length string have no fixed position in Layouts (-1): the recorder locates the count field  *)
(* of the concrete frame (first bit in which the frames with cap and cap-1 elements differ) and logs it with the event.      *)
Pick(a, b) == IF a >= 0 THEN a ELSE b
EntryOf(r) == LET T == TableEntry(r) IN
              IF "coff" \in DOMAIN r
              THEN [T EXCEPT !.countoff = Pick(T.countoff, r.coff), !.elemsoff = Pick(T.elemsoff, r.eoff), !.elembits = Pick(T.elembits, r.ebits)]
              ELSE T
CountOnWire(frame, L) == FromBitsU(BufBits(frame, 24 + L.countoff, L.countbits))

ListRtOk(r) ==
    LET L == EntryOf(r) IN
    /\ HasEntry(r) /\ r.n <= L.cap
    /\ r.out = "ok"                                               \* every admissible length encodes
    /\ Classify(r.frame) = "ok" /\ Len(r.frame) <= 1029            \* within the 1023-byte payload limit
    /\ L.countoff >= 0 => CountOnWire(r.frame, L) = r.n            \* the count field on the wire
    /\ r.dec = "Typed" /\ r.dec_n = r.n                            \* decoding returns exactly that many elements
    /\ r.tags_out = r.tags_in                                      \* ... the same ones, in the same order

HostileOk(r) ==
    LET L == EntryOf(r)
        dlen == DeclLen(r.frame)
        cnt == CountOnWire(r.frame, L) IN
    /\ HasEntry(r) /\ Classify(r.frame) = "ok" /\ L.countoff >= 0
    /\ (8 * dlen >= L.countoff + L.countbits /\ cnt > L.cap) => r.out = "Corrupt"
    /\ (8 * dlen >= L.countoff + L.countbits /\ L.elemsoff >= 0 /\ L.elembits >= 0 /\ 8 * dlen < L.elemsoff + cnt * L.elembits) => r.out = "Corrupt"
    /\ 8 * dlen < L.countoff + L.countbits => r.out = "Corrupt"    \* the count field itself is cut off
    /\ r.out \in {"Corrupt", "Typed"}

(* a frame with an admissible count and a body of full length whose ELEMENT bits are arbitrary: every element pattern is a  *)
(* value (C08), so decoding returns a typed message with exactly `count` elements                                           *)
PatchedOk(r) ==
    LET L == EntryOf(r)
        cnt == CountOnWire(r.frame, L) IN
    /\ HasEntry(r) /\ Classify(r.frame) = "ok" /\ L.countoff >= 0 /\ L.elemsoff >= 0 /\ L.elembits >= 0
    /\ (cnt <= L.cap /\ 8 * DeclLen(r.frame) >= L.elemsoff + cnt * L.elembits) =>
          (r.out = "Typed" /\ r.dec_n = cnt)
TracePatched == IsEvent("ListPatched") /\ PatchedOk(Rec[l]) = TRUE
TraceRt == IsEvent("ListRt") /\ ListRtOk(Rec[l]) = TRUE
TraceHostile == IsEvent("ListHostile") /\ HostileOk(Rec[l]) = TRUE
Init == l = 1
Next == TraceRt \/ TraceHostile \/ TracePatched
Explain(r) == IF HasEntry(r) THEN [list |-> EntryOf(r), out |-> r.out,
                                    count_on_wire |-> IF "frame" \in DOMAIN r /\ EntryOf(r).countoff >= 0 THEN CountOnWire(r.frame, EntryOf(r)) ELSE -1]
              ELSE [unknown_list |-> r.path]
Accepted == LET d == TLCGet("stats").diameter IN
            IF d - 1 = Len(Rec) THEN TRUE
            ELSE /\ PrintT(<<"UNMATCHED", d, ToJson(Explain(Rec[d]))>>)
                 /\ FALSE
=============================================================================
