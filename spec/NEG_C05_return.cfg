CONSTANTS Profile = "toy" ToyA = 3 MaxLen = 6
INIT Init
NEXT NegNextReturn
INVARIANT Inv
CHECK_DEADLOCK FALSE
