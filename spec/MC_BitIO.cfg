CONSTANTS BufLen = 3 Carrier_ = 8 MaxW = 8 Backgrounds = {0, 255}
INIT SeedInit
NEXT SeedNext
INVARIANT Inv
CHECK_DEADLOCK FALSE
