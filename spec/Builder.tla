------------------------------ MODULE Builder ------------------------------
(* MessageBuilder (src/msg/message.rs): a reusable frame buffer with a        *)
(* has_run flag.  One action per critical step of build_message:              *)
(*   Begin   -- the has_run / clear_data prologue, cursor to 0                *)
(*   PutOk / PutUnk / PutOvf -- one Assembler::put on the payload window      *)
(*   Abort   -- any `?` exit: the buffer keeps what was written               *)
(*   Finish  -- length bytes, CRC-24Q, the returned slice                     *)
(* The buffer is modelled byte for byte so that residue is explicit.          *)
EXTENDS BitOps, Crc24q

CONSTANT WinBytes                 \* payload window in bytes: 1023 in the code (data[3..1026])
BufBytes == WinBytes + 6
Fresh == [k \in 1..BufBytes |-> IF k = 1 THEN 211 ELSE 0]            \* MessageBuilder::new
Clear(d) == [k \in 1..BufBytes |-> IF k = 1 THEN d[1] ELSE 0]        \* clear_data: data[1..] = 0

VARIABLES data,      \* the 1029-byte buffer
          hasRun,
          phase,     \* "idle" | "building"
          cur,       \* bit cursor inside the payload window
          unk,       \* set of <<off, w>>: fields whose value was not representable (content unconstrained)
          result     \* outcome of the latest build: [out |-> "none"|"ok"|"err", frame, err]
bVars == <<data, hasRun, phase, cur, unk, result>>

NoResult == [out |-> "none", frame |-> <<>>, err |-> ""]

BuilderInit == data = Fresh /\ hasRun = FALSE /\ phase = "idle" /\ cur = 0 /\ unk = {} /\ result = NoResult
NewBuilder == data' = Fresh /\ hasRun' = FALSE /\ phase' = "idle" /\ cur' = 0 /\ unk' = {} /\ result' = NoResult

Begin == /\ phase = "idle"
         /\ data' = IF hasRun THEN Clear(data) ELSE data
         /\ hasRun' = TRUE
         /\ phase' = "building" /\ cur' = 0 /\ unk' = {} /\ result' = NoResult

WinFits(w) == cur + w <= 8 * WinBytes
(* a put of known field bits fb at the cursor (window starts at byte 4 = bit 24) *)
PutOk(fb) == /\ phase = "building" /\ WinFits(Len(fb))
             /\ data' = PutFast(data, 24 + cur, fb)
             /\ cur' = cur + Len(fb)
             /\ UNCHANGED <<hasRun, phase, unk, result>>
(* a put of a value that does not fit its width: w bits are written, which ones is not specified *)
PutUnk(w) == /\ phase = "building" /\ WinFits(w)
             /\ cur' = cur + w /\ unk' = unk \cup {<<cur, w>>}
             /\ UNCHANGED <<data, hasRun, phase, result>>
(* a put crossing the end of the window fails; build_message returns the error *)
PutOvf(w) == /\ phase = "building" /\ ~WinFits(w)
             /\ phase' = "idle" /\ result' = [out |-> "err", frame |-> <<>>, err |-> "BufferOverflow"]
             /\ UNCHANGED <<data, hasRun, cur, unk>>
Abort(e) == /\ phase = "building"
            /\ phase' = "idle" /\ result' = [out |-> "err", frame |-> <<>>, err |-> e]
            /\ UNCHANGED <<data, hasRun, cur, unk>>

DataLen(c) == (c - 1) \div 8 + 1
Finished(d, c) == LET n  == DataLen(c)
                      d1 == [d EXCEPT ![2] = n \div 256, ![3] = n % 256]
                      ck == CrcBytes(Crc(SubSeq(d1, 1, n + 3)))
                  IN [d1 EXCEPT ![n + 4] = ck[1], ![n + 5] = ck[2], ![n + 6] = ck[3]]
Finish == /\ phase = "building" /\ cur >= 1
          /\ data' = Finished(data, cur)
          /\ result' = [out |-> "ok", frame |-> SubSeq(Finished(data, cur), 1, DataLen(cur) + 6), err |-> ""]
          /\ phase' = "idle"
          /\ UNCHANGED <<hasRun, cur, unk>>

(* ---- what a fresh builder produces for a sequence of field bit strings ------ *)
FreshFrame(puts) ==
    LET st == FoldLeft(LAMBDA acc, fb : [d |-> PutFast(acc.d, 24 + acc.c, fb), c |-> acc.c + Len(fb)],
                       [d |-> Fresh, c |-> 0], puts)
    IN SubSeq(Finished(st.d, st.c), 1, DataLen(st.c) + 6)

(* ---- C09: shape of every emitted frame --------------------------------------- *)
WellFormedFrame(fr) ==
    /\ Len(fr) >= 7 /\ Len(fr) <= BufBytes
    /\ fr[1] = 211 /\ fr[2] <= 3
    /\ fr[2] * 256 + fr[3] = Len(fr) - 6
    /\ CrcBytes(Crc(SubSeq(fr, 1, Len(fr) - 3))) = SubSeq(fr, Len(fr) - 2, Len(fr))
First12(fr) == fr[4] * 16 + fr[5] \div 16
=============================================================================
