----------------------------- MODULE Trace_Build -----------------------------
(* Trace validation for C09 / C12: build_message calls on the real            *)
(* MessageBuilder recorded with the put-hook on.  The trace spec carries      *)
(* Builder's full state (buffer, has_run, cursor) across the sessions of one  *)
(* builder object; every Put event must be a Builder put step at the spec's   *)
(* cursor, and a successful BuildEnd must return exactly the frame the spec's *)
(* Finish produces -- which, because Begin clears, is the fresh builder's     *)
(* frame whatever the history was.                                            *)
EXTENDS Builder, Json, IOUtils, TLC

Rec == ndJsonDeserialize(IOEnv.TRACE)
VARIABLES l, number, nputs, lastOvf
tvars == <<bVars, l, number, nputs, lastOvf>>
IsEvent(e) == l <= Len(Rec) /\ Rec[l].ev = e /\ l' = l + 1

TraceNew == IsEvent("NewBuilder") /\ NewBuilder /\ number' = -1 /\ nputs' = 0 /\ lastOvf' = FALSE
(* build_message is entered: prologue.  number = digits of the variant name,   *)
(* which must also be what Message::number() reports (-1: no wire form)        *)
TraceBegin == /\ IsEvent("BuildBegin")
              /\ Rec[l].number_api = Rec[l].number
              /\ Begin
              /\ number' = Rec[l].number /\ nputs' = 0 /\ lastOvf' = FALSE
TracePut == /\ IsEvent("Put")
            /\ LET r == Rec[l] IN
               /\ r.off = cur                          \* the previous put advanced the cursor as specified
               /\ r.ok \in BOOLEAN
               /\ r.w >= 1 /\ r.w <= r.carrier /\ Len(r.vbits) = r.carrier     \* a field is never wider than its carrier
               /\ number >= 0                          \* a message without wire form never reaches a put
               /\ IF r.ok
                  THEN /\ (IF Repr(r.kind, r.vbits, r.w) THEN PutOk(Field(r.kind, r.vbits, r.w)) ELSE PutUnk(r.w))
                       /\ lastOvf' = FALSE
                  ELSE /\ ~WinFits(r.w) /\ lastOvf' = TRUE     \* the error surfaces at BuildEnd
                       /\ UNCHANGED bVars
               /\ nputs' = nputs + 1 /\ UNCHANGED number

(* bytes of the returned frame against the spec's buffer, except fields whose value was not representable *)
ByteUnk(k) == \E u \in unk : 24 + u[1] <= 8 * (k - 1) + 7 /\ 24 + u[1] + u[2] > 8 * (k - 1)       \* byte k (1-based) overlaps field u
BitUnk(g) == \E u \in unk : g >= 24 + u[1] /\ g < 24 + u[1] + u[2]
PayloadMatches(fr, spec) ==
    \A k \in 4..(Len(fr) - 3) :
        IF ~ByteUnk(k) THEN fr[k] = spec[k]
        ELSE \A j \in 0..7 : BitUnk(8 * (k - 1) + j) \/ BitAt(fr, 8 * (k - 1) + j) = BitAt(spec, 8 * (k - 1) + j)
ErrOf(out) == IF Len(out) > 4 /\ SubSeq(out, 1, 4) = "err:" THEN SubSeq(out, 5, Len(out)) ELSE ""

(* all comparisons of a successful BuildEnd, as one state predicate over the current state *)
EndOkChecks(r) ==
    LET exp == SubSeq(Finished(data, cur), 1, DataLen(cur) + 6) IN      \* the frame Finish returns
    /\ ~lastOvf /\ number >= 0 /\ nputs >= 1
    /\ Len(r.frame) = Len(exp)
    /\ IF unk = {} THEN r.frame = exp
       ELSE PayloadMatches(r.frame, exp) /\ r.frame[2] = exp[2] /\ r.frame[3] = exp[3]
    /\ WellFormedFrame(r.frame) /\ Len(r.frame) >= 8
    /\ First12(r.frame) = number
    \* C12: the same message on a fresh builder gives the same bytes
    /\ r.fresh_out = "ok" /\ r.fresh = r.frame
(* "= TRUE" makes TLC evaluate the predicate as a value instead of expanding its *)
(* quantifiers and disjunctions into successor states                             *)
TraceEndOk == /\ IsEvent("BuildEnd") /\ Rec[l].out = "ok"
              /\ EndOkChecks(Rec[l]) = TRUE
              /\ Finish
              /\ UNCHANGED <<number, nputs, lastOvf>>
TraceEndErr == /\ IsEvent("BuildEnd") /\ Len(Rec[l].out) > 4 /\ SubSeq(Rec[l].out, 1, 4) = "err:"
               /\ LET r == Rec[l]
                      e == ErrOf(r.out) IN
                  \* which error variant is returned is not fixed by C09 / C12 (only that it is an error); the
                  \* variant is carried into Abort as logged
                  /\ (number < 0) => nputs = 0
                  /\ Len(r.fresh_out) > 4 /\ SubSeq(r.fresh_out, 1, 4) = "err:"      \* a fresh builder refuses it too
                  /\ Abort(e)
               /\ UNCHANGED <<number, nputs, lastOvf>>
(* a panic matches no action: the trace is rejected there (C09) *)

Init == l = 1 /\ BuilderInit /\ number = -1 /\ nputs = 0 /\ lastOvf = FALSE
Next == TraceNew \/ TraceBegin \/ TracePut \/ TraceEndOk \/ TraceEndErr

Explain(r) == [event |-> r.ev,
               rule |-> "Put: at the spec cursor, ok iff it fits the 1023-byte window; BuildEnd ok: frame = Finish(Fresh + puts) byte for byte (except non-representable fields), well formed, first 12 bits = number, fresh builder agrees; err: some error (the variant is not fixed) after an overflowing put or for a message without wire form, and a fresh builder errs as well; panic: never"]
Accepted == LET d == TLCGet("stats").diameter IN
            IF d - 1 = Len(Rec) THEN TRUE
            ELSE /\ PrintT(<<"UNMATCHED", d, ToJson(Explain(Rec[d]))>>)
                 /\ FALSE
=============================================================================
