------------------------------ MODULE BitOps ------------------------------
(* Operators of Assembler::put / Parser::parse (src/df/assembler.rs,          *)
(* src/df/parser.rs); the state machine is in BitIO.                          *)
(* Assembler::put / Parser::parse:                                            *)
(* a bit cursor over a byte buffer.  Declarative definitions (PutSpec,        *)
(* ParseSpec) and a literal transcription of the per-byte mask/shift loops    *)
(* (PutAlg, ParseAlg); MC_BitIO checks that the loops compute the declarative *)
(* result.  Carrier values are bit sequences (two's complement, MSB first).   *)
EXTENDS Integers, Sequences, SequencesExt, Bitwise, Bits

(* global bit index g is 0-based; bytes are 1-based sequence elements *)
BitAt(buf, g) == (buf[g \div 8 + 1] \div Pow2(7 - (g % 8))) % 2
BufBits(buf, off, w) == [k \in 1..w |-> BitAt(buf, off + k - 1)]

(* the field bits written for a carrier value c (bit sequence) of kind u/s/sm *)
Field(kind, c, w) == CASE kind = "u"  -> FieldU(c, w)
                       [] kind = "s"  -> FieldTwos(c, w)
                       [] kind = "sm" -> FieldSm(c, w)
Repr(kind, c, w)  == CASE kind = "u"  -> ReprU(c, w)
                       [] kind = "s"  -> ReprTwos(c, w)
                       [] kind = "sm" -> ReprSm(c, w)
(* the carrier value read back from field bits f, carrier width n *)
Carrier(kind, f, n) == CASE kind = "u"  -> CarrierU(f, n)
                         [] kind = "s"  -> CarrierTwos(f, n)
                         [] kind = "sm" -> CarrierSm(f, n)
(* what reading returns for a representable written value: the value itself,  *)
(* except sign-magnitude negative zero which has no carrier counterpart        *)
Fits(buf, off, w) == off + w <= 8 * Len(buf)

(* ---- declarative ----------------------------------------------------------- *)
(* exactly the w bits at off are replaced by fb, MSB first; nothing else moves *)
PutSpec(buf, off, fb) ==
    LET w == Len(fb) IN
    [k \in 1..Len(buf) |->
        IF 8 * (k - 1) + 7 < off \/ 8 * (k - 1) >= off + w THEN buf[k]
        ELSE BitsByte([j \in 1..8 |-> LET g == 8 * (k - 1) + j - 1 IN
                                      IF g >= off /\ g < off + w THEN fb[g - off + 1] ELSE BitAt(buf, g)])]
(* the same function, touching only the bytes the field overlaps (used on full-size buffers; *)
(* MC_BitIO checks PutFast = PutSpec)                                                        *)
NewByte(buf, off, fb, k) ==
    BitsByte([j \in 1..8 |-> LET g == 8 * (k - 1) + j - 1 IN
                             IF g >= off /\ g < off + Len(fb) THEN fb[g - off + 1] ELSE BitAt(buf, g)])
PutFast(buf, off, fb) ==
    IF Len(fb) = 0 THEN buf
    ELSE LET first == off \div 8 + 1
             last  == (off + Len(fb) - 1) \div 8 + 1
         IN FoldLeft(LAMBDA b, k : [b EXCEPT ![k] = NewByte(buf, off, fb, k)], buf,
                     [i \in 1..(last - first + 1) |-> first + i - 1])
ParseSpec(buf, off, kind, w, n) == Carrier(kind, BufBits(buf, off, w), n)

(* ---- the algorithms, transcribed -------------------------------------------- *)
(* shifts on n-bit carrier sequences, as Rust's << and >> on the carrier type   *)
Shl(c, k) == [j \in 1..Len(c) |-> IF j + k <= Len(c) THEN c[j + k] ELSE 0]
Shr(c, k, signed) == [j \in 1..Len(c) |-> IF j - k >= 1 THEN c[j - k] ELSE IF signed THEN c[1] ELSE 0]
Low8(c) == FromBitsU(LowBits(c, 8))
(* sign_fix_rev (bit_value.rs): identity for u / s; for sm a set bit len-1 of  *)
(* the two's-complement value means "negative": magnitude = -v, sign bit set   *)
OrBit(c, pos) == [j \in 1..Len(c) |-> IF j = Len(c) - pos THEN 1 ELSE c[j]]     \* pos counted from the LSB, 0-based
SignFixRev(kind, c, w) == IF kind = "sm" /\ c[Len(c) - (w - 1)] = 1 THEN OrBit(Neg(c), w - 1) ELSE c

PutAlg(buf, off, kind, c0, w) ==
    LET c     == SignFixRev(kind, c0, w)
        signed == kind # "u"
        lhst  == off % 8
        lhen  == (off + w) % 8
        rhen  == (8 - lhen) % 8
        sti   == off \div 8
        dlen  == (off + w - 1) \div 8 - sti + 1
        \* bits still to write after byte i (0-based), as the loop's running lenlft
        nbits(i) == 8 - (IF i = 0 THEN lhst ELSE 0) - (IF i = dlen - 1 THEN rhen ELSE 0)
        lenlft[i \in 0..(dlen - 1)] == IF i = 0 THEN w - nbits(0) ELSE lenlft[i - 1] - nbits(i)
        bset(i) == ((IF i = 0 THEN shiftR(255, lhst) ELSE 255) & (IF i = dlen - 1 THEN (255 * Pow2(rhen)) % 256 ELSE 255))
        bpos(i) == IF i = dlen - 1 THEN rhen ELSE 0
        tval(i) == IF bpos(i) >= lenlft[i] THEN Shl(c, bpos(i) - lenlft[i]) ELSE Shr(c, lenlft[i] - bpos(i), signed)
        bval(i) == Low8(tval(i))
        newb(i, d) == ((d & ((255 - bset(i)) | bval(i))) | (bset(i) & bval(i)))
    IN [k \in 1..Len(buf) |-> IF k - 1 >= sti /\ k - 1 < sti + dlen THEN newb(k - 1 - sti, buf[k]) ELSE buf[k]]

(* sign_fix (bit_value.rs) on the accumulated carrier value *)
AndNotHigh(c, keep) == [j \in 1..Len(c) |-> IF j > Len(c) - keep THEN c[j] ELSE 0]
SignFix(kind, c, w) ==
    CASE kind = "u" -> c
      [] kind = "s" -> IF c[Len(c) - (w - 1)] = 0 \/ w = Len(c) THEN c
                       ELSE [j \in 1..Len(c) |-> IF j <= Len(c) - w THEN 1 ELSE c[j]]
      [] kind = "sm" -> IF c[Len(c) - (w - 1)] = 0 THEN c ELSE Neg(AndNotHigh(c, w - 1))
OrSeq(a, b) == [j \in 1..Len(a) |-> IF a[j] = 1 \/ b[j] = 1 THEN 1 ELSE 0]
ParseAlg(buf, off, kind, w, n) ==
    LET lhst  == off % 8
        lhen  == (off + w) % 8
        rhen  == (8 - lhen) % 8
        sti   == off \div 8
        dlen  == (off + w - 1) \div 8 - sti + 1
        nbits(i) == 8 - (IF i = 0 THEN lhst ELSE 0) - (IF i = dlen - 1 THEN rhen ELSE 0)
        lenlft[i \in 0..(dlen - 1)] == IF i = 0 THEN w - nbits(0) ELSE lenlft[i - 1] - nbits(i)
        bpos(i) == IF i = dlen - 1 THEN rhen ELSE 0
        masked(i) == (buf[sti + i + 1] & (IF i = 0 THEN shiftR(255, lhst) ELSE 255)) & (IF i = dlen - 1 THEN (255 * Pow2(rhen)) % 256 ELSE 255)
        b(i) == IF bpos(i) >= lenlft[i] THEN shiftR(masked(i), bpos(i) - lenlft[i]) ELSE masked(i)
        bv(i) == ToBitsU(b(i), 8)
        term(i) == IF bpos(i) >= lenlft[i] THEN ZeroExtend(bv(i), n) ELSE Shl(ZeroExtend(bv(i), n), lenlft[i] - bpos(i))
        acc == FoldLeft(LAMBDA a, i : OrSeq(a, term(i)), Zeros(n), [i \in 1..dlen |-> i - 1])
    IN SignFix(kind, acc, w)

=============================================================================
