------------------------------- MODULE Frame -------------------------------
(* The RTCM 3 transport frame as MessageFrame::new sees it                    *)
(* (src/message_frame.rs).  One source of truth, two profiles:                *)
(*   "real": preamble 0xD3, 6 reserved bits + 10-bit length, payload,         *)
(*           CRC-24Q over everything before the checksum;                     *)
(*   "toy" : alphabet 0..ToyA-1, preamble ToyA-1, length = 2nd symbol mod 3,  *)
(*           one checksum symbol (weighted sum mod ToyA).  It exists so that  *)
(*           every short string is full of frames, near-frames and nested     *)
(*           frames and the scanner / stream models stay exhaustive.          *)
EXTENDS Integers, Sequences, SequencesExt, FiniteSets, Crc24q

CONSTANTS Profile, ToyA
ASSUME Profile \in {"real", "toy"}

Real == Profile = "real"

Preamble == IF Real THEN 211 ELSE ToyA - 1
HdrLen   == IF Real THEN 3 ELSE 2
CkLen    == IF Real THEN 3 ELSE 1
MinLen   == HdrLen + CkLen
MaxDecl  == IF Real THEN 1023 ELSE 2

(* declared payload length; needs Len(b) >= HdrLen *)
DeclLen(b) == IF Real THEN (b[2] % 4) * 256 + b[3] ELSE b[2] % 3

ToyCk(bytes) == << (FoldLeft(LAMBDA acc, x : acc * 2 + x + 1, 0, bytes)) % ToyA >>
Ck(bytes) == IF Real THEN CrcBytes(Crc(bytes)) ELSE ToyCk(bytes)

StartsWithPreamble(b) == Len(b) >= 1 /\ b[1] = Preamble
Complete(b) == Len(b) >= MinLen /\ Len(b) >= DeclLen(b) + MinLen

(* the acceptance predicate of C03 *)
Classify(b) ==
    IF ~StartsWithPreamble(b) THEN "notpre"
    ELSE IF ~Complete(b) THEN "incomplete"
    ELSE LET L == DeclLen(b) IN
         IF Ck(SubSeq(b, 1, L + HdrLen)) = SubSeq(b, L + HdrLen + 1, L + MinLen)
         THEN "ok" ELSE "notvalid"

(* What MessageFrame::new may answer.  The property says nothing about a     *)
(* short slice that does not start with the preamble (the code answers        *)
(* Incomplete before looking at the first byte), so both answers are          *)
(* admissible there.                                                          *)
Admissible(b) ==
    CASE Classify(b) = "notpre" /\ Len(b) >= MinLen -> {"notvalid"}
      [] Classify(b) = "notpre"                      -> {"notvalid", "incomplete"}
      [] OTHER                                       -> {Classify(b)}

FrameLen(b) == DeclLen(b) + MinLen
Payload(b)  == SubSeq(b, HdrLen + 1, HdrLen + DeclLen(b))
FrameOf(b)  == SubSeq(b, 1, FrameLen(b))
CkOf(b)     == SubSeq(b, HdrLen + DeclLen(b) + 1, FrameLen(b))

(* message number: first 12 payload bits when the payload has >= 2 bytes     *)
(* (real profile); toy: first payload symbol when the payload has >= 1       *)
NoNum == -1
Num(b) == IF Real
          THEN IF DeclLen(b) >= 2 THEN b[4] * 16 + b[5] \div 16 ELSE NoNum
          ELSE IF DeclLen(b) >= 1 THEN b[3] ELSE NoNum

(* deliberate deviation kept as a named variant: the unfixed code decided     *)
(* the presence of a number from the length of the *input slice*              *)
(* (message_frame.rs:48 before the fix, defect D1)                            *)
NumFromSliceLen(b) == IF Real
          THEN IF Len(b) >= 8 THEN b[4] * 16 + b[5] \div 16 ELSE NoNum
          ELSE IF Len(b) >= 4 THEN b[3] ELSE NoNum

(* everything an accepted frame lets the caller observe *)
Observe(b) == [flen |-> FrameLen(b), dlen |-> DeclLen(b), data |-> Payload(b),
               frame |-> FrameOf(b), ck |-> CkOf(b), num |-> Num(b)]

(* build a frame around a payload (reserved bits rsv: 0..63 in the real       *)
(* profile; the toy profile hides a "reserved" part in the length symbol:     *)
(* any symbol congruent to the length mod 3)                                  *)
MkFrame(payload, rsv) ==
    LET L == Len(payload)
        hdr == IF Real THEN << 211, rsv * 4 + L \div 256, L % 256 >>
                       ELSE << ToyA - 1, L + 3 * rsv >>
    IN hdr \o payload \o Ck(hdr \o payload)
=============================================================================
