------------------------------- MODULE MC_Text -------------------------------
(* C17 at design level: representative code points around every boundary,       *)
(* small capacities, all strings up to capacity + 2.                            *)
EXTENDS Text, TLC
CONSTANTS Caps
VARIABLES s, N
Alphabet == {0, 65, 127, 128, 164, 255, 256, 2047, 2048, 65535, 65536, 1114111}
Init == N \in Caps /\ s \in UNION {[1..k -> Alphabet] : k \in 0..(N + 2)}
Next == UNCHANGED <<s, N>>
DescOk == LET d == Desc(s, N) IN
          /\ Len(d) = (IF Len(s) < N THEN Len(s) ELSE N)
          /\ \A i \in 1..Len(d) : d[i] \in 1..255 /\ (s[i] \in 1..255 => d[i] = s[i]) /\ (s[i] \notin 1..255 => d[i] = 164)
          /\ Chars(d) = d                                        \* reading the characters back returns the mapping
Utf8Ok == LET p == Utf8Prefix(s, N) IN
          /\ Len(p) <= Len(s) /\ p = SubSeq(s, 1, Len(p))            \* a prefix of whole characters
          /\ ByteLen(p) <= N                                         \* fits
          /\ (Len(p) < Len(s) => ByteLen(p) + U8Len(s[Len(p) + 1]) > N)   \* maximal
          /\ ValidUtf8(U8Bytes(p))                                   \* always valid UTF-8
          /\ Len(U8Bytes(p)) = ByteLen(p)
(* negative cases of the well-formedness table *)
BadCases == /\ ~ValidUtf8(<<192, 128>>) /\ ~ValidUtf8(<<224, 128, 128>>) /\ ~ValidUtf8(<<237, 160, 128>>)
            /\ ~ValidUtf8(<<244, 144, 128, 128>>) /\ ~ValidUtf8(<<226, 130>>) /\ ~ValidUtf8(<<128>>) /\ ~ValidUtf8(<<255>>)
            /\ ~ValidUtf8(<<240, 128, 128, 128>>) /\ ~ValidUtf8(<<65, 195>>) /\ ValidUtf8(<<>>) /\ ValidUtf8(<<244, 143, 191, 191>>)
Inv == DescOk /\ Utf8Ok /\ BadCases
=============================================================================
