CONSTANTS Profile = "toy" ToyA = 4 MaxLen = 6
SPECIFICATION Spec
INVARIANT Inv
PROPERTY Terminates
CHECK_DEADLOCK FALSE
