------------------------------ MODULE Gen_Frame ------------------------------
(* Behaviour generation for C03 / C13 (spec -> implementation), real profile:  *)
(* for every payload length in Lengths the valid frame and its near-misses,     *)
(* each with the outcomes the specification admits and, when accepted, the      *)
(* observations it fixes.  One JSON line per vector for the replayer.           *)
EXTENDS Frame, TLC, Json
CONSTANT Lengths
Pat(n, seed) == [k \in 1..n |-> (k * 41 + seed * 17 + (k \div 5) * 3) % 256]
SetSeq(S) == SetToSeq(S)
Expect(b) == [bytes |-> b, admissible |-> SetSeq(Admissible(b)),
              obs |-> IF Classify(b) = "ok"
                      THEN [flen |-> FrameLen(b), dlen |-> DeclLen(b), crc |-> CrcOfBytes(CkOf(b)), num |-> Num(b)]
                      ELSE [flen |-> -1, dlen |-> -1, crc |-> -1, num |-> -1]]
Variants(L) ==
    LET f == MkFrame(Pat(L, L), 0)
        n == Len(f) IN
    << f,                                                        \* the valid frame
       [f EXCEPT ![1] = 210], [f EXCEPT ![1] = 83], [f EXCEPT ![1] = 0],                 \* wrong preamble
       SubSeq(f, 1, n - 1), SubSeq(f, 1, 5), SubSeq(f, 1, 1), <<>>,                      \* truncations
       [f EXCEPT ![n] = (f[n] + 1) % 256], [f EXCEPT ![n - 2] = f[n - 2] ^^ 128],        \* checksum off by one / one bit
       [f EXCEPT ![2] = f[2] + 4], [f EXCEPT ![2] = f[2] + 252],                         \* reserved bits set, checksum stale
       MkFrame(Pat(L, L), 63), MkFrame(Pat(L, L), 21),                                   \* reserved bits set, checksum fresh
       f \o <<0>>, f \o <<211, 0, 0>>, f \o f, f \o Pat(40, 3),                          \* bytes after the frame (C13)
       (IF L < 1023 THEN [f EXCEPT ![3] = (f[3] + 1) % 256, ![2] = f[2] + (IF f[3] = 255 THEN 1 ELSE 0)] \o Pat(300, 1) ELSE f),  \* length + 1
       (IF L >= 1 THEN [f EXCEPT ![4] = f[4] ^^ 1] ELSE f) >>                            \* payload bit flipped
VARIABLE done
Init == done = FALSE
Next == /\ ~done
        /\ \A L \in Lengths : \A k \in 1..Len(Variants(L)) :
              PrintT(<<"REPLAY", ToJson(Expect(Variants(L)[k]))>>)
        /\ done' = TRUE
=============================================================================
