---------------------------- MODULE Trace_Features ----------------------------
(* Trace validation for C19: one observation per feature configuration.  The   *)
(* decisive step is a real build (no default features, hence no std) of a probe *)
(* that decodes a corpus produced by the full build.                            *)
EXTENDS Integers, Sequences, FiniteSets, Json, IOUtils, TLC
Rec == ndJsonDeserialize(IOEnv.TRACE)
VARIABLES l, ref
IsEvent(e) == l <= Len(Rec) /\ Rec[l].ev = e /\ l' = l + 1
SeqSet(s) == {s[k] : k \in 1..Len(s)}
(* reference: results[k] = <<type, class, number, digest>> from the full build *)
(* generator frames are typed; synthetic short / padded frames may be Corrupt (supported number) or MsgNotSupported *)
RefOk(r) == \A k \in 1..Len(r.results) :
               LET e == r.results[k] IN
               CASE e[2] = "Typed" -> e[1] = e[3] /\ e[1] \in SeqSet(r.supported)
                 [] e[2] = "Corrupt" -> e[1] \in SeqSet(r.supported)
                 [] e[2] = "MsgNotSupported" -> e[1] \notin SeqSet(r.supported)
                 [] OTHER -> FALSE
TraceRef == IsEvent("Ref") /\ RefOk(Rec[l]) = TRUE /\ ref' = Rec[l]
ConfigOk(r) ==
    LET F == SeqSet(r.features) IN
    /\ r.build = "ok"                                           \* the crate builds without the standard library
    /\ Len(r.results) = Len(ref.results)
    /\ \A k \in 1..Len(ref.results) :
          LET n == ref.results[k][1]
              got == r.results[k] IN                            \* <<class, number, digest>>
          IF n \in F THEN got = <<ref.results[k][2], ref.results[k][3], ref.results[k][4]>>   \* same outcome as the full build
          ELSE got[1] = "MsgNotSupported" /\ got[2] = n                  \* every other number is unsupported
TraceConfig == IsEvent("Config") /\ ConfigOk(Rec[l]) = TRUE /\ UNCHANGED ref
Init == l = 1 /\ ref = [results |-> <<>>, supported |-> <<>>]
Next == TraceRef \/ TraceConfig
Explain(r) == IF r.ev = "Config" THEN [features |-> r.features, serde |-> r.serde, build |-> r.build, log |-> r.log] ELSE [event |-> r.ev]
Accepted == LET d == TLCGet("stats").diameter IN
            IF d - 1 = Len(Rec) THEN TRUE
            ELSE /\ PrintT(<<"UNMATCHED", d, ToJson(Explain(Rec[d]))>>)
                 /\ FALSE
=============================================================================
