CONSTANTS Profile = "toy" ToyA = 3 MaxLen = 9
SPECIFICATION Spec
INVARIANT Inv
PROPERTY Terminates
CHECK_DEADLOCK FALSE
