CONSTANT SweepLimit = 32
INIT Init
NEXT Next
CHECK_DEADLOCK FALSE
