CONSTANTS Profile = "toy" ToyA = 3 MaxSends = 2 MaxNoise = 1
SPECIFICATION Spec
INVARIANT Inv
CHECK_DEADLOCK FALSE
PROPERTY Live
