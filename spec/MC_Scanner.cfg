CONSTANTS Profile = "toy" ToyA = 3 MaxLen = 7
SPECIFICATION Spec
INVARIANT Inv
PROPERTY Terminates
CHECK_DEADLOCK FALSE
