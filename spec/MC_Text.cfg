CONSTANTS Caps = {2, 3}
INIT Init
NEXT Next
INVARIANT Inv
CHECK_DEADLOCK FALSE
