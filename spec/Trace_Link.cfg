CONSTANTS Profile = "real" ToyA = 0
INIT Init
NEXT Next
POSTCONDITION Accepted
CHECK_DEADLOCK FALSE
