----------------------------- MODULE Trace_Probe -----------------------------
(* Trace validation for C11: quantisation picks the nearest representable       *)
(* value.  Inputs are constructed from grid coordinates: x = (k + t/16)*res+bias *)
(* in the field's own float type; the event carries k, t and the integer kout    *)
(* of the pattern the encoder wrote (64-bit two's complement sequences).         *)
(*   t in {0, 1/16, 1/4, 7/16, 1/2 -+ 2^-14, 1/2, 9/16, 3/4, 15/16};                   *)
(*   kout in {k, k+1}; the nearer neighbour outside the slack band sigma around  *)
(*   the half step; |decode(encode(x)) - x| <= res/2 + sigma*res; kout is        *)
(*   monotone along the k,t-sorted probe sequence of a field.                    *)
(* sigma = 2^SigExp grid units bounds the floating-point error of constructing   *)
(* x and of the encode pipeline (~10 roundings at the magnitude |k|+|bias/res|). *)
EXTENDS Quant, Json, IOUtils, TLC

Rec == ndJsonDeserialize(IOEnv.TRACE)
VARIABLES l, cur, prev     \* cur: ProbeBegin record of the field; prev: last kout (<<>> at field start)
IsEvent(e) == l <= Len(Rec) /\ Rec[l].ev = e /\ l' = l + 1

(* bit length of |k| for a 64-bit two's complement sequence *)
Abs64(c) == IF c[1] = 1 THEN Neg(c) ELSE c
BitLen(c) == LET a == Abs64(c) IN
             IF AllZero(a) THEN 0 ELSE 64 - (CHOOSE i \in 1..64 : a[i] = 1 /\ \A j \in 1..(i - 1) : a[j] = 0) + 1
Max2(a, b) == IF a > b THEN a ELSE b
BiasBits(id) == IF id \in FieldIds THEN FieldOf(id).biasbits ELSE 0
MantOf(ft) == IF ft = "f32" THEN 24 ELSE 53
SigExpF(r, ft) == Max2(BitLen(r.kbits), BiasBits(r.id)) + 5 - MantOf(ft)
SigExp(r) == SigExpF(r, cur.ftype)
FtypeOf(id) == IF id \in FieldIds THEN FieldOf(id).ftype ELSE "f32"      \* the hand-written bias quantisers are f32
(* t = tnum / 2^tden; its distance d / 2^tden from the half step is at least 2^GapExp with           *)
(* GapExp = floor(log2 d) - tden  (d = |tnum - 2^(tden-1)|); at the half step itself there is no gap *)
RECURSIVE Log2Floor(_)
Log2Floor(n) == IF n <= 1 THEN 0 ELSE 1 + Log2Floor(n \div 2)
HalfNum(r) == 2^(r.tden - 1)
Below(r) == r.tnum < HalfNum(r)
Above(r) == r.tnum > HalfNum(r)
GapExp(r) == IF r.tnum = HalfNum(r) THEN -100
             ELSE Log2Floor(IF Below(r) THEN HalfNum(r) - r.tnum ELSE r.tnum - HalfNum(r)) - r.tden

LessS(a, b) == IF a[1] # b[1] THEN a[1] = 1 ELSE LessU(a, b)
LeS(a, b) == a = b \/ LessS(a, b)

ProbeOk(r) ==
    LET se == SigExp(r)
        up == Inc(r.kbits) IN
    /\ r.id = cur.id /\ ~r.enc_err /\ ~r.dec_absent /\ r.finite_x
    /\ se <= -2 => r.kout \in {r.kbits, up}                       \* one of the two neighbours
    /\ (Below(r) /\ se < GapExp(r)) => r.kout = r.kbits           \* below the half step: round down
    /\ (Above(r) /\ se < GapExp(r)) => r.kout = up                \* above: round up
    \* decoded result within half a step plus slack (err in units of 2^-20 steps)
    /\ se <= 8 => r.err_q20 <= 524288 + (IF se + 20 >= 0 THEN 2^(se + 20) ELSE 1) + 2
    \* monotone along the sorted probe sequence
    /\ prev # <<>> => LeS(prev, r.kout)

TraceBegin == IsEvent("ProbeBegin") /\ cur' = Rec[l] /\ prev' = <<>>
TraceProbe == IsEvent("Probe") /\ ProbeOk(Rec[l]) = TRUE /\ prev' = Rec[l].kout /\ UNCHANGED cur

Init == l = 1 /\ cur = [id |-> "", ftype |-> "f64"] /\ prev = <<>>
Next == TraceBegin \/ TraceProbe

Explain(r) == IF r.ev = "Probe" THEN [sigexp |-> SigExpF(r, FtypeOf(r.id)), gapexp |-> GapExp(r), field |-> r.id,
                                      rule |-> "kout in {k,k+1}; nearer neighbour outside the slack band; err <= 1/2 + sigma; monotone"]
              ELSE [event |-> r.ev]
Accepted == LET d == TLCGet("stats").diameter IN
            IF d - 1 = Len(Rec) THEN TRUE
            ELSE /\ PrintT(<<"UNMATCHED", d, ToJson(Explain(Rec[d]))>>)
                 /\ FALSE
=============================================================================
