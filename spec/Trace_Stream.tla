---------------------------- MODULE Trace_Stream ----------------------------
(* Trace validation for C06: a recorded streaming session (the caller         *)
(* protocol around the real next_msg_frame) must be a behaviour of Stream:    *)
(* every Feed is Stream!Feed, every scanner call returns ScanResult(pending)  *)
(* and is applied by Stream!Apply; at End the session must be quiescent with  *)
(* delivered = WholeScan(stream).  Real profile.                              *)
EXTENDS Stream, Json, IOUtils, TLC

Rec == ndJsonDeserialize(IOEnv.TRACE)
VARIABLE l
tvars == <<streamVars, l>>
IsEvent(e) == l <= Len(Rec) /\ Rec[l].ev = e /\ l' = l + 1

AsResult(r) == [consumed |-> r.consumed,
                frame |-> IF r.at < 0 THEN S!NoFrame ELSE [at |-> r.at + 1, len |-> r.len]]

TraceInit == IsEvent("StreamInit") /\ StreamReset(Rec[l].stream)     \* a session start resets the model
TraceFeed == IsEvent("Feed") /\ Feed(Rec[l].n)
(* a scanner call: what the code returned must be what the spec computes for   *)
(* the pending bytes; a call without progress is a stuttering step of Stream   *)
TraceScan == /\ IsEvent("Scan")
             /\ LET SR == AsResult(Rec[l]) IN
                /\ Rec[l].at >= -1
                /\ SR = S!ScanResultFast(pending)
                /\ IF SR.consumed > 0 \/ SR.frame # S!NoFrame THEN Apply(SR) ELSE UNCHANGED streamVars
TraceEnd  == /\ IsEvent("End")
             /\ LET r == Rec[l]
                    w == S!WholeScanFast(stream) IN
                /\ fed = Len(stream)
                /\ r.base = base
                /\ r.delivered = [k \in 1..Len(delivered) |-> <<delivered[k].at - 1, delivered[k].len>>]
                /\ delivered = w.frames /\ base = w.consumed          \* ChunkInv
                /\ PendingIsUnconsumed
             /\ UNCHANGED streamVars

Init == l = 1 /\ StreamInit(<<>>)
Next == TraceInit \/ TraceFeed \/ TraceScan \/ TraceEnd

Explain(r) == [event |-> r.ev, spec_state |-> "see the session in the replay file; the scanner result must equal ScanResult(pending), End must equal WholeScan(stream)"]
Accepted == LET d == TLCGet("stats").diameter IN
            IF d - 1 = Len(Rec) THEN TRUE
            ELSE /\ PrintT(<<"UNMATCHED", d, ToJson(Explain(Rec[d]))>>)
                 /\ FALSE
=============================================================================
