CONSTANTS W = {1, 2, 3, 5} Variant = "trunc"
INIT Init
NEXT Next
INVARIANT Inv
INVARIANT Nearest
CHECK_DEADLOCK FALSE
