------------------------------ MODULE Scanner ------------------------------
(* next_msg_frame (src/lib.rs) as a step machine, one step per loop           *)
(* iteration / early return, plus the declarative result it must compute,     *)
(* and the iterator built on top of it (MsgFrameIter).                        *)
EXTENDS Frame

Rest(b, i) == SubSeq(b, i, Len(b))            \* the slice data[i-1..] in Rust terms (i is 1-based)
St(b, i)   == Classify(Rest(b, i))
Cand(b)    == {i \in 1..Len(b) : b[i] = Preamble}

NoFrame == [at |-> 0, len |-> 0]

(* ---- declarative result (C05) -------------------------------------------- *)
(* earliest candidate that is not dead; deliver it if complete and valid,     *)
(* stop in front of it if incomplete; nothing alive: consume everything       *)
ScanResult(b) ==
    LET S == {i \in Cand(b) : St(b, i) # "notvalid"} IN
    IF S = {} THEN [consumed |-> Len(b), frame |-> NoFrame]
    ELSE LET i == Min(S) IN
         IF St(b, i) = "ok"
         THEN [consumed |-> i - 1 + FrameLen(Rest(b, i)), frame |-> [at |-> i, len |-> FrameLen(Rest(b, i))]]
         ELSE [consumed |-> i - 1, frame |-> NoFrame]

(* the same result computed left to right, classifying only candidates up to  *)
(* the first live one (used on full-size buffers, where each classification   *)
(* costs a CRC); MC checks ScanResultFast = ScanResult on every toy buffer    *)
ScanResultFast(b) ==
    LET cands == SetToSortSeq(Cand(b), <)
        first == FoldLeft(LAMBDA acc, i : IF acc # 0 THEN acc
                                          ELSE IF St(b, i) # "notvalid" THEN i ELSE 0, 0, cands)
    IN IF first = 0 THEN [consumed |-> Len(b), frame |-> NoFrame]
       ELSE IF St(b, first) = "ok"
            THEN [consumed |-> first - 1 + FrameLen(Rest(b, first)),
                  frame |-> [at |-> first, len |-> FrameLen(Rest(b, first))]]
            ELSE [consumed |-> first - 1, frame |-> NoFrame]

(* repeated scanning of the unconsumed rest, as a caller (or MsgFrameIter)    *)
(* does: list of delivered frames with absolute positions + total consumed.   *)
(* The iterator stops at the first call that delivers nothing.                *)
RECURSIVE WholeScanFrom(_, _, _, _)
WholeScanFrom(b, base, acc, fast) ==
    IF base >= Len(b) THEN [frames |-> acc, consumed |-> base]
    ELSE LET rest == SubSeq(b, base + 1, Len(b))
             r == IF fast THEN ScanResultFast(rest) ELSE ScanResult(rest) IN
         IF r.frame = NoFrame THEN [frames |-> acc, consumed |-> base + r.consumed]
         ELSE WholeScanFrom(b, base + r.consumed,
                            Append(acc, [at |-> base + r.frame.at, len |-> r.frame.len]), fast)
WholeScan(b)     == WholeScanFrom(b, 0, <<>>, FALSE)
WholeScanFast(b) == WholeScanFrom(b, 0, <<>>, TRUE)

(* ---- the loop itself ------------------------------------------------------ *)
VARIABLES buf, i, result        \* i: next index to look at (1-based); result: Running or the returned pair
scanVars == <<buf, i, result>>
Running == [consumed |-> -1, frame |-> NoFrame]

ScanInit(b) == buf = b /\ i = 1 /\ result = Running

SkipByte == /\ result = Running /\ i <= Len(buf) /\ buf[i] # Preamble
            /\ i' = i + 1 /\ UNCHANGED <<buf, result>>
Reject   == /\ result = Running /\ i <= Len(buf) /\ buf[i] = Preamble
            /\ St(buf, i) = "notvalid"
            /\ i' = i + 1 /\ UNCHANGED <<buf, result>>          \* NotValid => continue
Stop     == /\ result = Running /\ i <= Len(buf) /\ buf[i] = Preamble
            /\ St(buf, i) = "incomplete"
            /\ result' = [consumed |-> i - 1, frame |-> NoFrame]  \* Incomplete => (i, None)
            /\ UNCHANGED <<buf, i>>
Deliver  == /\ result = Running /\ i <= Len(buf) /\ buf[i] = Preamble
            /\ St(buf, i) = "ok"
            /\ result' = [consumed |-> i - 1 + FrameLen(Rest(buf, i)),
                          frame |-> [at |-> i, len |-> FrameLen(Rest(buf, i))]]
            /\ UNCHANGED <<buf, i>>
Exhaust  == /\ result = Running /\ i > Len(buf)
            /\ result' = [consumed |-> Len(buf), frame |-> NoFrame]
            /\ UNCHANGED <<buf, i>>

ScanNext == SkipByte \/ Reject \/ Stop \/ Deliver \/ Exhaust

(* ---- what C05 asks of the result ------------------------------------------ *)
Done == result # Running
RefinesDeclarative == Done => result = ScanResult(buf)
ConsumedBounded    == Done => result.consumed <= Len(buf)
FrameAtMark        == (Done /\ result.frame # NoFrame) =>
                        /\ result.frame.at - 1 + result.frame.len = result.consumed
                        /\ Classify(SubSeq(buf, result.frame.at, result.consumed)) = "ok"
(* every byte consumed outside the delivered frame is dead: it is not a       *)
(* preamble, or the candidate starting there is not valid -- and by           *)
(* Stable (MC_Frame) stays not valid whatever is appended                     *)
DeadBytes == Done => \A j \in 1..result.consumed :
                        (result.frame # NoFrame /\ j >= result.frame.at) \/ buf[j] # Preamble \/ St(buf, j) = "notvalid"
(* the loop terminates: i only grows and is bounded *)
Bounded == i <= Len(buf) + 1
=============================================================================
