CONSTANT SweepLimit = 24
INIT Init
NEXT Next
CHECK_DEADLOCK FALSE
