---------------------------- MODULE MC_BiasList ----------------------------
(* C16 at design level with toy widths: a decoder for Enc is written out and    *)
(* Dec(Enc(es)) = Regrouped(es) is checked for all small lists; the variant     *)
(* without the count guards shows the wrap (D5) as a counterexample.            *)
EXTENDS Integers, Sequences, SequencesExt, FiniteSets, TLC

CONSTANTS NSats, NSigs, MaxLen, CountMax, Guarded
(* toy: entries <<sat, sig>>; per-satellite count field holds 0..CountMax (wraps modulo CountMax+1 when unguarded) *)
VARIABLE es
Entries == (0..(NSats - 1)) \X (1..NSigs)
Init == es \in UNION {[1..n -> Entries] : n \in 0..MaxLen}
Next == UNCHANGED es
Distinct == \A i, j \in 1..Len(es) : i # j => es[i] # es[j]
Sats == {es[k][1] : k \in 1..Len(es)}
OfSat(s) == SelectSeq(es, LAMBDA e : e[1] = s)
MustErr == \E s \in Sats : Len(OfSat(s)) > CountMax
(* wire form: sequence of groups <<sat, count, entries>>; the count field wraps when unguarded *)
Wire == [i \in 1..Cardinality(Sats) |-> LET s == SetToSortSeq(Sats, <)[i] IN
            <<s, Len(OfSat(s)) % (CountMax + 1), OfSat(s)>>]
(* decoder: reads `count` entries of each group from the stream of entries that follows *)
Stream == FoldLeft(LAMBDA acc, g : acc \o g[3], <<>>, Wire)
Dec == LET step(acc, g) == [out |-> acc.out \o SubSeq(Stream, acc.pos + 1, acc.pos + g[2]), pos |-> acc.pos + g[2]]
       IN FoldLeft(step, [out |-> <<>>, pos |-> 0], Wire).out
Regrouped == FoldLeft(LAMBDA acc, s : acc \o OfSat(s), <<>>, SetToSortSeq(Sats, <))
Keep == Distinct => IF Guarded /\ MustErr THEN TRUE ELSE Dec = Regrouped
=============================================================================
