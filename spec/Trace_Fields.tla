---------------------------- MODULE Trace_Fields ----------------------------
(* Trace validation for C08: raw decode->encode events on bit patterns and     *)
(* lossless range observations of exhaustive sweeps, judged against Quant.     *)
EXTENDS Quant, Json, IOUtils, TLC

Rec == ndJsonDeserialize(IOEnv.TRACE)
VARIABLES l, cur, seen        \* cur: field being swept; seen: chunk numbers observed for it
IsEvent(e) == l <= Len(Rec) /\ Rec[l].ev = e /\ l' = l + 1

Known(r) == r.id \in FieldIds /\ FieldOf(r.id).w = r.w

(* one pattern: decode, encode, read back *)
RtOk(r) == LET f == FieldOf(r.id) IN
    /\ Known(r) /\ Len(r.p) = f.w
    /\ ~r.err /\ r.n = f.w
    /\ r.q = Norm(f, r.p)                               \* lossless on the grid (negative zero normalises)
    /\ r.absent <=> IsAbsentPattern(f, r.p)             \* exactly the inv pattern is absent
    /\ r.finite

(* a swept chunk [chunk*2^b, (chunk+1)*2^b) *)
TopBits(p, n) == FromBitsU(SubSeq(p, 1, n))
InChunk(f, p, r) == TopBits(p, f.w - r.chunkbits) = r.chunk
SweepOk(r) == LET f == FieldOf(r.id) IN
    /\ Known(r) /\ r.chunkbits <= f.w /\ r.chunk < 2^(f.w - r.chunkbits)
    /\ r.tried * r.stride = 2^r.chunkbits                                   \* the whole chunk (on the stated stride)
    /\ \A k \in 1..Len(r.bad) : f.kind = "sm" /\ r.bad[k] = NegZero(f.w)    \* only negative zero may re-encode differently
    /\ r.nonfinite = <<>>
    /\ \A k \in 1..Len(r.absent) : IsAbsentPattern(f, r.absent[k])
    \* inv lies in this chunk (and on the stride) => it must have been seen absent
    /\ (f.hasinv /\ InChunk(f, f.inv, r) /\ r.stride = 1) => r.absent = <<f.inv>>
    /\ Len(r.absent) <= 1

TraceBegin == IsEvent("FieldBegin") /\ Known(Rec[l]) = TRUE /\ cur' = Rec[l].id /\ seen' = {}
TraceSweep == /\ IsEvent("FieldSweep") /\ (Rec[l].id = cur /\ Rec[l].chunk \notin seen /\ SweepOk(Rec[l])) = TRUE
              /\ seen' = seen \cup {Rec[l].chunk} /\ UNCHANGED cur
(* the chunks tile the whole pattern space of the field *)
TraceEnd == /\ IsEvent("FieldEnd")
            /\ (Rec[l].id = cur /\ Rec[l].chunkbits <= Rec[l].w /\ Rec[l].w - Rec[l].chunkbits <= 12
                /\ seen = 0..(2^(Rec[l].w - Rec[l].chunkbits) - 1)) = TRUE
            /\ UNCHANGED <<cur, seen>>
TraceRt == IsEvent("FieldRt") /\ RtOk(Rec[l]) = TRUE /\ UNCHANGED <<cur, seen>>
(* hand-written bias codecs swept through one-entry messages *)
TraceBias == /\ IsEvent("BiasSweep")
             /\ (Rec[l].bad = <<>> /\ Rec[l].nonfinite = <<>> /\ Rec[l].tried = 2^Rec[l].w) = TRUE
             /\ UNCHANGED <<cur, seen>>

(* C01 at field level: the pattern written for ANY accepted real input (incl. inputs far out of range, which wrap) is a   *)
(* normal form - decoding it and encoding the result writes it again; never a panic                                      *)
NfOk(r) == /\ r.panic = ""
           /\ ~r.enc_err => (~r.rt_err /\ r.q = r.p)
TraceNf == IsEvent("FieldNf") /\ NfOk(Rec[l]) = TRUE /\ UNCHANGED <<cur, seen>>

Init == l = 1 /\ cur = "" /\ seen = {}
Next == TraceBegin \/ TraceSweep \/ TraceEnd \/ TraceRt \/ TraceBias \/ TraceNf

Explain(r) == IF r.ev \in {"FieldRt", "FieldSweep"} /\ r.id \in FieldIds
              THEN [field |-> FieldOf(r.id), rule |-> "encode(decode(p)) = Norm(p); absent iff p = inv; finite; sweeps: bad within {negative zero}, chunks tile the space"]
              ELSE [event |-> r.ev]
Accepted == LET d == TLCGet("stats").diameter IN
            IF d - 1 = Len(Rec) THEN TRUE
            ELSE /\ PrintT(<<"UNMATCHED", d, ToJson(Explain(Rec[d]))>>)
                 /\ FALSE
=============================================================================
