------------------------------- MODULE Bits -------------------------------
(* Pure bit-sequence arithmetic.  A bit sequence is a TLA+ sequence of 0/1,   *)
(* most significant bit first -- exactly the order in which RTCM puts bits on *)
(* the wire.  TLC integers are 32-bit Java ints, so every quantity that may   *)
(* exceed 2^31 (64-bit masks, 38-bit fields) lives here as a bit sequence.    *)
EXTENDS Integers, Sequences, SequencesExt, Functions

Bit == {0, 1}
BitSeq(n) == [1..n -> Bit]

Pow2(n) == 2^n

(* unsigned value <-> bits; only for n <= 30 *)
RECURSIVE ToBitsU(_, _)
ToBitsU(v, w) == IF w = 0 THEN <<>> ELSE Append(ToBitsU(v \div 2, w - 1), v % 2)

FromBitsU(bs) == FoldLeft(LAMBDA acc, b : 2 * acc + b, 0, bs)

(* bytes (0..255) <-> bits *)
ByteBits(b) == << (b \div 128) % 2, (b \div 64) % 2, (b \div 32) % 2, (b \div 16) % 2,
                  (b \div 8) % 2,   (b \div 4) % 2,  (b \div 2) % 2,  b % 2 >>
BitsByte(bs) == 128*bs[1] + 64*bs[2] + 32*bs[3] + 16*bs[4] + 8*bs[5] + 4*bs[6] + 2*bs[7] + bs[8]

BytesToBits(bytes) == [k \in 1..(8 * Len(bytes)) |-> ByteBits(bytes[(k - 1) \div 8 + 1])[((k - 1) % 8) + 1]]

(* pad with zero bits to a whole number of bytes and pack *)
PadBits(bs) == LET r == Len(bs) % 8 IN IF r = 0 THEN bs ELSE bs \o [k \in 1..(8 - r) |-> 0]
BitsToBytes(bs) == LET p == PadBits(bs) IN
                   [k \in 1..(Len(p) \div 8) |-> BitsByte(SubSeq(p, 8*(k-1) + 1, 8*k))]

AllZero(bs) == \A k \in 1..Len(bs) : bs[k] = 0
AllOne(bs)  == \A k \in 1..Len(bs) : bs[k] = 1
Zeros(n) == [k \in 1..n |-> 0]
Ones(n)  == [k \in 1..n |-> 1]
NotB(bs) == [k \in 1..Len(bs) |-> 1 - bs[k]]

(* bs + 1 modulo 2^Len(bs) *)
Inc(bs) == LET n == Len(bs)
               \* position of the lowest 0 bit (0 if none)
               z == IF \E k \in 1..n : bs[k] = 0 THEN CHOOSE k \in 1..n : bs[k] = 0 /\ \A j \in (k+1)..n : bs[j] = 1 ELSE 0
           IN [k \in 1..n |-> IF k < z THEN bs[k] ELSE IF k = z THEN 1 ELSE 0]

(* two's-complement negation modulo 2^Len(bs) *)
Neg(bs) == Inc(NotB(bs))

(* low w bits / sign extension of a carrier-width sequence *)
LowBits(bs, w) == SubSeq(bs, Len(bs) - w + 1, Len(bs))
SignExtend(bs, n) == [k \in 1..n |-> IF k <= n - Len(bs) THEN bs[1] ELSE bs[k - (n - Len(bs))]]
ZeroExtend(bs, n) == [k \in 1..n |-> IF k <= n - Len(bs) THEN 0 ELSE bs[k - (n - Len(bs))]]

(* ---- the three integer encodings of the standard, on carrier-width two's-   *)
(* ---- complement representations (carrier bits c, field width w <= Len(c))  *)

(* unsigned / two's complement: the low w bits *)
FieldU(c, w)    == LowBits(c, w)
FieldTwos(c, w) == LowBits(c, w)
(* sign-magnitude: sign bit, then the low w-1 bits of |v| *)
IsNegC(c) == c[1] = 1
FieldSm(c, w) == IF IsNegC(c) THEN <<1>> \o LowBits(Neg(c), w - 1) ELSE <<0>> \o LowBits(c, w - 1)

(* inverse direction: field bits -> carrier bits of width n *)
CarrierU(f, n)    == ZeroExtend(f, n)
CarrierTwos(f, n) == SignExtend(f, n)
CarrierSm(f, n)   == IF f[1] = 1 THEN Neg(ZeroExtend(Tail(f), n)) ELSE ZeroExtend(Tail(f), n)

(* representable in w bits? (c is the n-bit two's complement carrier value) *)
ReprU(c, w)    == AllZero(SubSeq(c, 1, Len(c) - w))
ReprTwos(c, w) == LET hi == SubSeq(c, 1, Len(c) - w + 1) IN AllZero(hi) \/ AllOne(hi)
ReprSm(c, w)   == LET m == IF IsNegC(c) THEN Neg(c) ELSE c IN
                  /\ AllZero(SubSeq(m, 1, Len(m) - w + 1))

(* lexicographic comparison of equal-length unsigned bit sequences *)
LessU(a, b) == \E k \in 1..Len(a) : a[k] < b[k] /\ \A j \in 1..(k-1) : a[j] = b[j]
=============================================================================
