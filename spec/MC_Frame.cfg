CONSTANTS Profile = "toy" ToyA = 3 MaxLen = 8 MaxSfx = 3
INIT Init
NEXT Next
INVARIANT Inv
CHECK_DEADLOCK FALSE
