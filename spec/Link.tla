-------------------------------- MODULE Link --------------------------------
(* End-to-end composition: a sender that frames payloads (what MessageBuilder  *)
(* emits: MkFrame), a channel that may put noise without preamble bytes        *)
(* between frames, and the receiver of C06 (chunked feeding around the         *)
(* scanner).  This is where C03, C05, C06, C09 and C13 meet:                    *)
(*   Safety    what the receiver delivers is a prefix of what was sent, same    *)
(*             positions, same order;                                           *)
(*   AllDelivered once everything on the wire has been fed and scanned, every sent *)
(*             frame has been delivered;                                        *)
(*   Live      under fair feeding and scanning that state is reached.           *)
EXTENDS Frame

VARIABLES wire,       \* bytes put on the channel so far
          sent,       \* frames sent: [at |-> 1-based start on the wire, len |-> ..]
          fed, pending, base, delivered      \* the receiver (Stream)
linkVars == <<wire, sent, fed, pending, base, delivered>>

R == INSTANCE Stream WITH stream <- wire

LinkInit == wire = <<>> /\ sent = <<>> /\ fed = 0 /\ pending = <<>> /\ base = 0 /\ delivered = <<>>

Send(payload) == /\ wire' = wire \o MkFrame(payload, 0)
                 /\ sent' = Append(sent, [at |-> Len(wire) + 1, len |-> Len(payload) + MinLen])
                 /\ UNCHANGED <<fed, pending, base, delivered>>
(* channel noise between frames: any bytes that are not the preamble *)
Noise(g) == /\ \A k \in 1..Len(g) : g[k] # Preamble
            /\ wire' = wire \o g
            /\ UNCHANGED <<sent, fed, pending, base, delivered>>
Recv(n) == R!Feed(n) /\ UNCHANGED sent
Scan == R!ScanStep /\ UNCHANGED sent

Safety == /\ Len(delivered) <= Len(sent)
          /\ SubSeq(sent, 1, Len(delivered)) = delivered
AllIn == fed = Len(wire) /\ R!Quiescent
AllDelivered == AllIn => delivered = sent
=============================================================================
