CONSTANTS Profile = "real" ToyA = 0 BurstMax = 9 CodeBits = 40
  Lengths = {0, 1, 2, 3, 4, 5, 19, 255, 256, 257, 511, 512, 1022, 1023}
INIT Init
NEXT Next
CHECK_DEADLOCK FALSE
