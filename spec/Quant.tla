------------------------------- MODULE Quant -------------------------------
(* The df! data-field codec (src/df/mod.rs) on *grid units*: a field of width  *)
(* w and integer kind u/s/sm carries an integer k; the real value is           *)
(* k*res + bias.  On grid units the codec is:                                  *)
(*    Dec(p) = absent            if p = inv                                    *)
(*           = present(Val(p))   otherwise                                     *)
(*    Enc(absent) = inv          Enc(present(k)) = Pattern(k)                  *)
(* C08: Enc(Dec(p)) = Norm(p) for every pattern, exactly one absent pattern.   *)
(* Floating point is outside TLA+; what the float pipeline adds is modelled as *)
(* a bounded perturbation (MC_Quant) and bounded by an integer error budget    *)
(* (Safe) on the real field table.                                             *)
EXTENDS Integers, Sequences, SequencesExt, Bits, Fields

FieldIds == {FieldTable[i].id : i \in 1..Len(FieldTable)}
FieldOf(id) == FieldTable[CHOOSE i \in 1..Len(FieldTable) : FieldTable[i].id = id]

(* the redundant sign-magnitude pattern: sign bit set, magnitude zero *)
NegZero(w) == <<1>> \o Zeros(w - 1)
Norm(f, p) == IF f.kind = "sm" /\ p = NegZero(f.w) THEN Zeros(f.w) ELSE p

IsAbsentPattern(f, p) == f.hasinv /\ p = f.inv
(* sign-magnitude negative zero of an optional field is still "present" (value 0) unless it IS inv *)

(* ---- error budget for the floating-point pipeline ---------------------------- *)
(* mantissa bits of the field's float type *)
Mant(f) == IF f.ftype = "f32" THEN 24 ELSE 53
(* M = 2^w + |bias/res| bounds every magnitude in grid units; the pipeline      *)
(* (int->float, *res, +bias, -bias, /res, +-0.5, truncate) does at most 6       *)
(* roundings of relative size 2^-m, so its deviation in grid units is below     *)
(* 6*M*2^-m; if that is below 1/2 the truncation after +-0.5 lands on the right *)
(* integer.  In bit lengths: bitlen(M) + 3 <= m - 1.                            *)
MaxBits(f) == (IF f.w > f.biasbits THEN f.w ELSE f.biasbits) + 1
Safe(f) == f.ftype = "int" \/ MaxBits(f) + 3 <= Mant(f) - 1
(* slack band for C11, in powers of two: sigma <= 2^(L + 5 - m) grid units where *)
(* L bounds the bit length of |k| + |bias/res| + 1                               *)
=============================================================================
