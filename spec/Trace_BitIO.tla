----------------------------- MODULE Trace_BitIO -----------------------------
(* Trace validation for C07: sessions on the real Assembler / Parser.  The    *)
(* trace spec carries BitIO's buffer and cursor; events log only arguments,   *)
(* results and the cursor, the buffer is compared at AsmEnd -- so TLC infers  *)
(* every intermediate buffer and neighbour-bit preservation is checked on     *)
(* every step.                                                                *)
EXTENDS BitIO, Json, IOUtils, TLC

Rec == ndJsonDeserialize(IOEnv.TRACE)
VARIABLE l
IsEvent(e) == l <= Len(Rec) /\ Rec[l].ev = e /\ l' = l + 1

TraceAsmInit == IsEvent("AsmInit") /\ buf' = Rec[l].buf /\ off' = Rec[l].off /\ last' = [out |-> "init", val |-> <<>>]
TraceParInit == IsEvent("ParInit") /\ buf' = Rec[l].buf /\ off' = Rec[l].off /\ last' = [out |-> "init", val |-> <<>>]
(* Put events carry representable values: they must be written exactly; the    *)
(* call must succeed iff the field fits (PutAny below: unrepresentable values)   *)
TracePut == /\ IsEvent("Put")
            /\ LET r == Rec[l] IN
               /\ r.panic = ""                           \* a panic is never a BitIO step
               /\ Len(r.vbits) = r.carrier /\ Repr(r.kind, r.vbits, r.w)
               /\ IF r.ok THEN Put(r.kind, r.vbits, r.w) ELSE PutOvf(r.w)
               /\ r.off_after = off'
(* a value that is not representable in w bits: the call must still be total (ok iff it fits), advance the   *)
(* cursor by w and touch nothing outside the field; which bits land in the field is not fixed by C07, so the *)
(* field's content is adopted from the buffer logged at the AsmEnd that closes the session                    *)
TracePutAny == /\ IsEvent("PutAny")
               /\ LET r == Rec[l] IN
                  /\ (r.panic = "" /\ Len(r.vbits) = r.carrier /\ r.w >= 1 /\ r.w <= r.carrier) = TRUE
                  /\ IF r.ok THEN /\ Fits(buf, off, r.w) /\ off' = off + r.w /\ UNCHANGED buf
                                  /\ last' = [out |-> "any", val |-> <<off, r.w>>]
                     ELSE PutOvf(r.w)
                  /\ r.off_after = off'
(* a panic on a value that is not representable in its width says nothing about C07 (it is C09's business): *)
(* the observation is accepted and the rest of the session is not judged                                     *)
TracePutAnyPanic == /\ IsEvent("PutAnyPanic") /\ last' = [out |-> "lost", val |-> <<>>] /\ UNCHANGED <<buf, off>>
OutsideSame(a, b, o, w) == /\ Len(a) = Len(b)
                           /\ \A g \in 0..(8 * Len(a) - 1) : (g < o \/ g >= o + w) => BitAt(a, g) = BitAt(b, g)
TraceAsmEnd == /\ IsEvent("AsmEnd")
               /\ IF last.out = "lost" THEN buf' = Rec[l].buf /\ UNCHANGED <<off, last>>
                  ELSE IF last.out = "any"
                  THEN OutsideSame(Rec[l].buf, buf, last.val[1], last.val[2]) = TRUE /\ buf' = Rec[l].buf /\ UNCHANGED <<off, last>>
                  ELSE Rec[l].buf = buf /\ UNCHANGED ioVars
TraceParse == /\ IsEvent("Parse")
              /\ LET r == Rec[l] IN
                 /\ r.panic = ""
                 /\ IF r.ok THEN Parse(r.kind, r.w, r.carrier) /\ last'.val = r.vbits ELSE ParseOvf(r.w)
                 /\ r.off_after = off'

Init == l = 1 /\ buf = <<>> /\ off = 0 /\ last = [out |-> "init", val |-> <<>>]
Next == TraceAsmInit \/ TraceParInit \/ TracePut \/ TracePutAny \/ TracePutAnyPanic \/ TraceAsmEnd \/ TraceParse

Explain(r) == [event |-> r.ev, rule |-> "Put: ok iff off+w <= 8*len, cursor += w, exactly the w field bits change (checked at AsmEnd); Parse: value = bits at the cursor decoded per kind; overflow changes nothing"]
Accepted == LET d == TLCGet("stats").diameter IN
            IF d - 1 = Len(Rec) THEN TRUE
            ELSE /\ PrintT(<<"UNMATCHED", d, ToJson(Explain(Rec[d]))>>)
                 /\ FALSE
=============================================================================
