---------------------------- MODULE MC_SigTables ----------------------------
(* C18 on the spec's own tables: injective both ways, positions in 2..32, the  *)
(* pinned examples, and the ordering is a strict total order on recognised     *)
(* descriptors.                                                                *)
EXTENDS SigTables, TLC
VARIABLE x
Init == x = 0
Next == UNCHANGED x
TablesOk == \A g \in Gnss : TableOk(Std[g])
SsrOk == /\ \A a, b \in SsrGps : (a[1] = b[1] \/ Desc(a) = Desc(b)) => a = b
         /\ \A a, b \in SsrGlo : (a[1] = b[1] \/ Desc(a) = Desc(b)) => a = b
OrderOk == \A g \in Gnss : \A a, b, c \in Recognised(g) :
              /\ CmpRecognised(g, a, a) = 0
              /\ CmpRecognised(g, a, b) = -CmpRecognised(g, b, a)
              /\ (CmpRecognised(g, a, b) = 0) <=> (a = b)
              /\ (CmpRecognised(g, a, b) = -1 /\ CmpRecognised(g, b, c) = -1) => CmpRecognised(g, a, c) = -1
ASSUME Pinned
ASSUME TablesOk
ASSUME SsrOk
ASSUME OrderOk
=============================================================================
