CONSTANTS WinBytes = 3 MaxSessions = 3
INIT Init
NEXT NegNextNoClear
INVARIANT Inv
CHECK_DEADLOCK FALSE
