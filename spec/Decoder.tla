------------------------------ MODULE Decoder ------------------------------
(* The outcome class of decoding a CRC-valid frame, derived from the message's  *)
(* layout (generated Layouts!MsgTable / ListTable): "typed", "corrupt" or       *)
(* "either" where no listed property fixes the class.                           *)
(* "typed" is only demanded for bodies of canonical length (what the encoder   *)
(* itself would emit: the needed bits padded to the byte): whether a decoder    *)
(* tolerates extra trailing bytes is not fixed by any listed property, so a     *)
(* longer body is "either".  "corrupt" (body too short / count inadmissible)    *)
(* is demanded for every length: C07 (reads past the end fail) + C15.           *)
(*  fixed : the decoder reads exactly fixedbits bits; a shorter body is a       *)
(*          parse overflow (Corrupt), anything else decodes (absent / invalid   *)
(*          field patterns are values, never errors);                           *)
(*  list  : header, count c, c elements of elembits: c > cap or a body shorter  *)
(*          than elemsoff + c*elembits is Corrupt, otherwise Typed;             *)
(*  msm   : header (73 bits), 64-bit satellite mask, 32-bit signal mask; both   *)
(*          zero: empty message; exactly one zero: either; > 64: Corrupt; then the cell *)
(*          mask, |S| satellite rows and one signal row per set cell; a body    *)
(*          that is too short is Corrupt; a cell on a signal position outside   *)
(*          the standard table may be either (the library may know more         *)
(*          positions than the standard table transcribed here).                *)
EXTENDS Frame, BitOps, Layouts, SigTables

HasMsg(n) == \E i \in 1..Len(MsgTable) : MsgTable[i].number = n
MsgOf(n) == MsgTable[CHOOSE i \in 1..Len(MsgTable) : MsgTable[i].number = n]
ListOf(n) == ListTable[CHOOSE i \in 1..Len(ListTable) : ListTable[i].number = n]

PBits(f, off, w) == BufBits(f, 24 + off, w)                 \* w payload bits at payload offset off
Ones1(bs) == {k \in 1..Len(bs) : bs[k] = 1}

MsmClass(f, m) ==
    LET body == 8 * DeclLen(f) IN
    IF body < m.fixedbits + 96 THEN "corrupt"
    ELSE LET S == Ones1(PBits(f, m.fixedbits, 64))
             G == Ones1(PBits(f, m.fixedbits + 64, 32))
             nc == Cardinality(S) * Cardinality(G) IN
         IF S = {} /\ G = {} THEN (IF body - (m.fixedbits + 96) < 8 THEN "typed" ELSE "either")
         \* exactly one empty mask: the encoder never writes it; accepted-as-empty or Corrupt are both compatible with C10
         ELSE IF nc = 0 THEN "either"
         ELSE IF nc > 64 THEN "corrupt"
         ELSE IF body < m.fixedbits + 96 + nc THEN "corrupt"
         ELSE LET cm == PBits(f, m.fixedbits + 96, nc)
                  ncell == Cardinality(Ones1(cm))
                  ng == Cardinality(G)
                  \* every satellite row and every signal column of the cell mask carries a cell (what C10's encoder guarantees)
                  fullrows == \A r \in 0..(Cardinality(S) - 1) : \E c \in 1..ng : cm[r * ng + c] = 1
                  fullcols == \A c \in 1..ng : \E r \in 0..(Cardinality(S) - 1) : cm[r * ng + c] = 1
                  need == m.fixedbits + 96 + nc + Cardinality(S) * m.satbits + ncell * m.sigbits IN
              IF body < need THEN "corrupt"
              ELSE IF body - need >= 8 THEN "either"
              \* typed is demanded only for frames an encoder satisfying C10 can produce: standard signal positions only,
              \* no satellite without a cell, no signal without a cell; a stricter or more lenient decoder may differ elsewhere
              ELSE IF fullrows /\ fullcols /\ (\A p \in G : \E t \in Std[m.gnss] : t[1] = p) THEN "typed" ELSE "either"

ListClass(f, m, L) ==
    LET body == 8 * DeclLen(f) IN
    IF body < L.countoff + L.countbits THEN "corrupt"
    ELSE LET c == FromBitsU(PBits(f, L.countoff, L.countbits)) IN
         IF c > L.cap THEN "corrupt"
         ELSE IF body < L.elemsoff \/ body < L.elemsoff + c * L.elembits THEN "corrupt"
         ELSE IF body - (L.elemsoff + c * L.elembits) < 8 THEN "typed" ELSE "either"

Canon(body, need) == IF body - need < 8 THEN "typed" ELSE "either"      \* body >= need is known here
RawClass(f) ==
    LET n == Num(f) IN
    IF ~HasMsg(n) THEN "either"
    ELSE LET m == MsgOf(n) IN
         CASE m.kind = "fixed" -> IF 8 * DeclLen(f) >= m.fixedbits THEN Canon(8 * DeclLen(f), m.fixedbits) ELSE "corrupt"
           [] m.kind = "list"  -> ListClass(f, m, ListOf(n))
           [] m.kind = "msm"   -> MsmClass(f, m)
           [] OTHER            -> "either"
ExpectedClass(f) == RawClass(f)
=============================================================================
