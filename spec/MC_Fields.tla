------------------------------ MODULE MC_Fields ------------------------------
(* C08 on the REAL field table (generated Fields.tla): every field is either   *)
(* within the floating-point error budget or narrow enough to be swept         *)
(* exhaustively; every 'absent' pattern is a pattern of the field's width.     *)
EXTENDS Quant, TLC
CONSTANT SweepLimit
VARIABLE x
Init == x = 0
Next == UNCHANGED x
Budget == \A i \in 1..Len(FieldTable) : Safe(FieldTable[i]) \/ FieldTable[i].w <= SweepLimit
InvShape == \A i \in 1..Len(FieldTable) : LET f == FieldTable[i] IN
               /\ f.w >= 1 /\ f.w <= f.carrier
               /\ f.hasinv => (Len(f.inv) = f.w /\ f.kind # "sm")
               /\ f.kind = "sm" => f.w >= 2
UniqueIds == \A i, j \in 1..Len(FieldTable) : FieldTable[i].id = FieldTable[j].id => i = j
ASSUME Budget
ASSUME InvShape
ASSUME UniqueIds
=============================================================================
