------------------------------- MODULE MC_Link -------------------------------
(* Link in the toy profile: all payloads up to 2 symbols, up to MaxSends frames, *)
(* noise of one or two non-preamble symbols, every chunking and interleaving.    *)
EXTENDS Link, TLC
CONSTANTS MaxSends, MaxNoise
VARIABLES noises
Payloads == UNION {[1..k -> 0..(ToyA - 1)] : k \in 0..2}
NoiseSym == (0..(ToyA - 1)) \ {Preamble}
Noises == UNION {[1..k -> NoiseSym] : k \in 1..2}
Init == LinkInit /\ noises = 0
Next == \/ (Len(sent) < MaxSends /\ \E p \in Payloads : Send(p)) /\ UNCHANGED noises
        \/ (noises < MaxNoise /\ \E g \in Noises : Noise(g)) /\ noises' = noises + 1
        \/ (\E n \in 1..4 : Recv(n)) /\ UNCHANGED noises
        \/ Scan /\ UNCHANGED noises
Fair == WF_<<linkVars, noises>>(Scan /\ UNCHANGED noises) /\ WF_<<linkVars, noises>>((\E n \in 1..4 : Recv(n)) /\ UNCHANGED noises)
Spec == Init /\ [][Next]_<<linkVars, noises>> /\ Fair
Inv == Safety /\ AllDelivered
(* once the sender and the channel have stopped, everything sent gets delivered *)
Live == <>[](Len(sent) = MaxSends /\ noises = MaxNoise => delivered = sent) 
=============================================================================
