CONSTANTS WinBytes = 3 MaxSessions = 5
INIT Init
NEXT Next
INVARIANT Inv
CHECK_DEADLOCK FALSE
