CONSTANTS Profile = "toy" ToyA = 4 MaxLen = 6 MaxSfx = 2
INIT Init
NEXT Next
INVARIANT Inv
CHECK_DEADLOCK FALSE
