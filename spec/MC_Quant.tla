------------------------------ MODULE MC_Quant ------------------------------
(* C08 / C11 at design level on toy fields.  Real arithmetic is exact on        *)
(* integers in units of res/8; the floating-point pipeline is modelled as a      *)
(* nondeterministic perturbation of at most one such unit per conversion.        *)
EXTENDS Integers, Sequences, FiniteSets, TLC

CONSTANTS W,            \* field widths explored
          Variant       \* "round" (the code), "trunc", "roundpos" (+0.5 for both signs)
VARIABLES w, kind, hasinv, p, eps

Kinds == {"u", "s", "sm"}
Pat(ww) == 0..(2^ww - 1)
(* integer value of pattern under kind *)
Val(k, ww, pp) == CASE k = "u" -> pp
                    [] k = "s" -> IF pp >= 2^(ww - 1) THEN pp - 2^ww ELSE pp
                    [] k = "sm" -> IF pp >= 2^(ww - 1) THEN -(pp - 2^(ww - 1)) ELSE pp
(* pattern of an in-range integer *)
PatOf(k, ww, v) == CASE k = "u" -> v
                     [] k = "s" -> IF v < 0 THEN v + 2^ww ELSE v
                     [] k = "sm" -> IF v < 0 THEN 2^(ww - 1) + (-v) ELSE v
InvOf(k, ww) == IF k = "u" THEN 0 ELSE 2^(ww - 1)          \* the code's choices: 0 for unsigned, min / -0 for signed
NormP(k, ww, pp) == IF k = "sm" /\ pp = 2^(ww - 1) THEN 0 ELSE pp

(* decode: value in units of res/8, perturbed by eps in -1..1 *)
DecUnits(k, ww, pp, e) == 8 * Val(k, ww, pp) + e
(* quantise y (units of res/8) to an integer number of steps *)
DivTrunc(a, b) == IF a >= 0 THEN a \div b ELSE -((-a) \div b)
Quantise(y) == CASE Variant = "round"    -> IF y >= 0 THEN DivTrunc(y + 4, 8) ELSE DivTrunc(y - 4, 8)
                 [] Variant = "trunc"    -> DivTrunc(y, 8)
                 [] Variant = "roundpos" -> DivTrunc(y + 4, 8)
EncDec(k, ww, hi, pp, e) ==
    IF hi /\ pp = InvOf(k, ww) THEN InvOf(k, ww)                 \* absent -> inv
    ELSE PatOf(k, ww, Quantise(DecUnits(k, ww, pp, e)))

Init == /\ w \in W /\ kind \in Kinds /\ hasinv \in BOOLEAN /\ p \in Pat(w) /\ eps \in {-1, 0, 1}
        /\ (kind = "sm" => (w >= 2 /\ ~hasinv))      \* as in the real table: no sign-magnitude field is optional
Next == UNCHANGED <<w, kind, hasinv, p, eps>>

(* C08: lossless on the grid under every perturbation; exactly one absent pattern *)
Lossless == EncDec(kind, w, hasinv, p, eps) = NormP(kind, w, p)
OneAbsent == hasinv => Cardinality({q \in Pat(w) : q = InvOf(kind, w)}) = 1
(* C11: an input t/16 of the way from k to k+1 (t in 0..15), perturbed, goes to a neighbour, *)
(* the nearer one outside the slack band of one unit around the half step                       *)
Nearest == \A t \in 0..15 :
             LET k == Val(kind, w, p)
                 y == 8 * k + (t \div 2) + eps          \* in units of res/8, t/16 = (t/2)/8
                 q == Quantise(y) IN
             (k + 1 <= (IF kind = "u" THEN 2^w - 1 ELSE 2^(w-1) - 1)) =>
                /\ q \in {k, k + 1}
                /\ (t <= 4 => q = k) /\ (t >= 12 => q = k + 1)
Inv == Lossless /\ OneAbsent
=============================================================================
