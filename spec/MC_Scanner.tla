----------------------------- MODULE MC_Scanner -----------------------------
(* C05 at design level: the loop of next_msg_frame refines the declarative    *)
(* result on every toy buffer; the iterator yields exactly WholeScan.         *)
EXTENDS Scanner, TLC

CONSTANTS MaxLen
Strings(n) == UNION {[1..k -> 0..(ToyA - 1)] : k \in 0..n}

Init == \E b \in Strings(MaxLen) : ScanInit(b)
Next == ScanNext
Spec == Init /\ [][Next]_scanVars /\ WF_scanVars(Next)

FastAgrees == ScanResultFast(buf) = ScanResult(buf) /\ WholeScanFast(buf) = WholeScan(buf)

(* the iterator: index += consumed; stops at first None; further next() calls *)
(* change nothing.  Modelled functionally on top of ScanResult.               *)
RECURSIVE IterRun(_, _, _, _)
IterRun(b, index, yielded, fuel) ==
    IF fuel = 0 THEN [frames |-> yielded, index |-> index, none |-> FALSE]
    ELSE IF index >= Len(b) THEN [frames |-> yielded, index |-> index, none |-> TRUE]
    ELSE LET r == ScanResult(SubSeq(b, index + 1, Len(b))) IN
         IF r.frame = NoFrame THEN [frames |-> yielded, index |-> index + r.consumed, none |-> TRUE]
         ELSE IterRun(b, index + r.consumed, Append(yielded, [at |-> index + r.frame.at, len |-> r.frame.len]), fuel - 1)
IterOk == LET it == IterRun(buf, 0, <<>>, Len(buf) + 1)
              w == WholeScan(buf) IN
          /\ it.none                           \* terminates within Len+1 next() calls
          /\ it.frames = w.frames /\ it.index = w.consumed
          \* after the first None a further next() yields None and leaves consumed() alone
          /\ LET again == IF it.index >= Len(buf) THEN [consumed |-> 0, frame |-> NoFrame]
                          ELSE ScanResult(SubSeq(buf, it.index + 1, Len(buf)))
             IN again.frame = NoFrame /\ again.consumed = 0
(* frames are in order, disjoint and inside the buffer *)
FramesOrdered == LET w == WholeScan(buf) IN
          /\ w.consumed <= Len(buf)
          /\ \A k \in 1..Len(w.frames) : w.frames[k].at + w.frames[k].len - 1 <= w.consumed
          /\ \A k \in 1..(Len(w.frames) - 1) : w.frames[k].at + w.frames[k].len <= w.frames[k+1].at

InitInv == (i = 1 /\ result = Running) => (FastAgrees /\ IterOk /\ FramesOrdered)    \* depend on buf only
Inv == RefinesDeclarative /\ ConsumedBounded /\ FrameAtMark /\ DeadBytes /\ Bounded /\ InitInv
Terminates == <>Done

(* ---- must-fail variants ---------------------------------------------------- *)
(* "NotValid => return (i+1, None)" instead of continue *)
NegReject == /\ result = Running /\ i <= Len(buf) /\ buf[i] = Preamble /\ St(buf, i) = "notvalid"
             /\ result' = [consumed |-> i, frame |-> NoFrame] /\ UNCHANGED <<buf, i>>
NegNextReturn == SkipByte \/ NegReject \/ Stop \/ Deliver \/ Exhaust
(* "Incomplete => continue" *)
NegStop == /\ result = Running /\ i <= Len(buf) /\ buf[i] = Preamble /\ St(buf, i) = "incomplete"
           /\ i' = i + 1 /\ UNCHANGED <<buf, result>>
NegNextSkip == SkipByte \/ Reject \/ NegStop \/ Deliver \/ Exhaust
=============================================================================
