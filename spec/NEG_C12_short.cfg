CONSTANTS WinBytes = 3 MaxSessions = 3
INIT Init
NEXT NegNextShort
INVARIANT Inv
CHECK_DEADLOCK FALSE
