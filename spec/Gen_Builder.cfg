CONSTANT MaxH = 3
INIT Init
NEXT Next
CHECK_DEADLOCK FALSE
