CONSTANTS WinBytes = 1023
INIT Init
NEXT Next
POSTCONDITION Accepted
CHECK_DEADLOCK FALSE
