------------------------------ MODULE MC_Lists ------------------------------
(* C15 on the REAL extracted layouts: every list at its capacity fits the      *)
(* 1023-byte payload (capacity arithmetic), every count field can express the   *)
(* capacity, and a toy list codec round-trips for every length.                 *)
EXTENDS Integers, Sequences, Layouts, TLC
VARIABLE n
(* toy codec: 2-bit count, capacity 2, 3-bit elements *)
ToyCap == 2
Elems == 0..7
Init == n \in 0..ToyCap
Next == UNCHANGED n
Fits == \A i \in 1..Len(ListTable) : LET L == ListTable[i] IN
           /\ 2^L.countbits - 1 >= L.cap                                    \* the count field can express the capacity
           /\ (L.elemsoff >= 0 /\ L.elembits >= 0) => L.elemsoff + L.cap * L.elembits <= 8 * 1023
EncToy(xs) == <<Len(xs)>> \o xs
DecToy(w) == IF w[1] > ToyCap \/ Len(w) - 1 < w[1] THEN "corrupt" ELSE SubSeq(w, 2, 1 + w[1])
ToyRoundTrip == \A xs \in [1..n -> Elems] : DecToy(EncToy(xs)) = xs
ToyCorrupt == /\ DecToy(<<3, 1, 2, 3>>) = "corrupt"                            \* count above capacity
              /\ \A xs \in [1..n -> Elems] : n >= 1 => DecToy(SubSeq(EncToy(xs), 1, n)) = "corrupt"   \* body shorter than the count implies
ASSUME Fits
Inv == ToyRoundTrip /\ ToyCorrupt
=============================================================================
