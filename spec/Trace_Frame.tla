----------------------------- MODULE Trace_Frame -----------------------------
(* Trace validation, stateless frame-level events recorded from the real      *)
(* library: FrameNew (C03), Sfx (C13), Corrupt (C04).  One event per line;    *)
(* the trace is accepted iff every line is a step this module allows.         *)
EXTENDS Frame, Json, IOUtils, TLC

Rec == ndJsonDeserialize(IOEnv.TRACE)
VARIABLE l
vars == <<l>>
IsEvent(e) == l <= Len(Rec) /\ Rec[l].ev = e /\ l' = l + 1

(* accessor values reported for an accepted frame, against Observe *)
ObsMatches(o, b) ==
    LET e == Observe(b) IN
    /\ o.flen = e.flen /\ o.dlen = e.dlen
    /\ o.data = <<HdrLen, e.dlen>>            \* the payload slice, as (offset, length) inside the input
    /\ o.frame = <<0, e.flen>>
    /\ o.crc = CrcOfBytes(e.ck)
    /\ o.num = e.num

FrameNewOk(r) == /\ r.out \in Admissible(r.bytes)
                 /\ r.out = "ok" => ObsMatches(r, r.bytes)

SfxPre(r) == Classify(r.frame) = "ok" /\ Len(r.frame) = FrameLen(r.frame)
SameObs(p, w) == /\ p.flen = w.flen /\ p.dlen = w.dlen /\ p.data = w.data /\ p.frame = w.frame
                 /\ p.crc = w.crc /\ p.num = w.num
                 /\ p.msg_variant = w.msg_variant /\ p.msg_digest = w.msg_digest
SfxOk(r) == /\ SfxPre(r)
            /\ r.plain.out = "ok" /\ r.with.out = "ok"
            /\ ObsMatches(r.plain, r.frame)
            /\ ObsMatches(r.with, r.frame \o r.sfx)
            /\ SameObs(r.plain, r.with)
            /\ (Num(r.frame) = NoNum) <=> (r.plain.msg_variant = "Empty")
            /\ (Num(r.frame) = NoNum) <=> (r.with.msg_variant = "Empty")

(* ---- C04: corruption campaigns -------------------------------------------- *)
Choose2(n) == (n * (n - 1)) \div 2
AllowedBits(flen) == 6 + 8 * (flen - 3)       \* reserved bits + payload + checksum
(* bursts of length k lie inside one region: the 6 reserved bits or the rest *)
BurstStarts(flen) == LET nb == 8 * (flen - 3)
                         Sum(f, S) == FoldSet(LAMBDA x, acc : acc + f[x], 0, S)
                         a == [k \in 2..24 |-> IF 6 >= k THEN 6 - k + 1 ELSE 0]
                         b == [k \in 2..24 |-> IF nb >= k THEN nb - k + 1 ELSE 0]
                     IN Sum(a, 2..24) + Sum(b, 2..24)
ExpectedTried(r) == CASE r.class = "single"   -> r.tried = AllowedBits(Len(r.frame))
                      [] r.class = "pair-all" -> r.tried = Choose2(AllowedBits(Len(r.frame)))
                      [] r.class = "burst"    -> r.tried = r.interiors * BurstStarts(Len(r.frame))
                      [] OTHER                -> r.tried >= 1
CorruptOk(r) == /\ SfxPre(r)
                /\ ExpectedTried(r)
                /\ r.accepted = <<>> /\ r.delivered = <<>>

TraceFrameNew == IsEvent("FrameNew") /\ FrameNewOk(Rec[l]) = TRUE     \* '= TRUE': evaluate as a value, do not expand into successor states
TraceSfx      == IsEvent("Sfx")      /\ SfxOk(Rec[l]) = TRUE
TraceCorrupt  == IsEvent("Corrupt")  /\ CorruptOk(Rec[l]) = TRUE

Init == l = 1
Next == TraceFrameNew \/ TraceSfx \/ TraceCorrupt

(* what the spec expected, for the replay file of a rejected event *)
Explain(r) ==
    CASE r.ev = "FrameNew" -> [admissible |-> Admissible(r.bytes),
                               expected |-> IF Classify(r.bytes) = "ok"
                                            THEN [flen |-> FrameLen(r.bytes), dlen |-> DeclLen(r.bytes),
                                                  crc |-> CrcOfBytes(CkOf(r.bytes)), num |-> Num(r.bytes)]
                                            ELSE [none |-> TRUE]]
      [] r.ev = "Sfx" -> [pre |-> SfxPre(r), expected_num |-> Num(r.frame), frame_class |-> Classify(r.frame),
                          rule |-> "plain and with-suffix observations must both equal Observe(frame)"]
      [] r.ev = "Corrupt" -> [pre |-> SfxPre(r), rule |-> "accepted and delivered must be empty; tried must match the class size",
                              allowed_bits |-> AllowedBits(Len(r.frame))]
      [] OTHER -> [unknown_event |-> r.ev]

Accepted == LET d == TLCGet("stats").diameter IN
            IF d - 1 = Len(Rec) THEN TRUE
            ELSE /\ PrintT(<<"UNMATCHED", d, ToJson(Explain(Rec[d]))>>)
                 /\ FALSE
=============================================================================
