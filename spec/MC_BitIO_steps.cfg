CONSTANTS BufLen = 2 Carrier_ = 2 MaxW = 2 Backgrounds = {0}
INIT Init
NEXT Next
INVARIANT StepInv
PROPERTY OvfFrame
CHECK_DEADLOCK FALSE
