------------------------------ MODULE MC_Frame ------------------------------
(* C03 / C13 at design level, toy profile, exhaustive over all strings.       *)
EXTENDS Frame, TLC

CONSTANTS MaxLen, MaxSfx
VARIABLE b

Strings(n) == UNION {[1..k -> 0..(ToyA - 1)] : k \in 0..n}

Init == b \in Strings(MaxLen)
Next == UNCHANGED b

(* the outcomes partition *)
Outcome == Classify(b) \in {"notpre", "incomplete", "ok", "notvalid"}
OkFits  == Classify(b) = "ok" => FrameLen(b) <= Len(b) /\ Classify(FrameOf(b)) = "ok"
(* a frame built by MkFrame is accepted, with the payload it was built from *)
(* stability: once a candidate is decided (ok / notvalid) no suffix changes the *)
(* verdict nor anything observable -- the lemma C05, C06, C13 rest on          *)
Stable == Classify(b) \in {"ok", "notvalid"} =>
            \A s \in Strings(MaxSfx) :
               /\ Classify(b \o s) = Classify(b)
               /\ Classify(b) = "ok" => Observe(b \o s) = Observe(b)
(* an incomplete candidate can still go either way or stay incomplete, but is  *)
(* never decided by fewer bytes *)
IncompleteIsPrefixClosed == Classify(b) = "incomplete" =>
            \A k \in 1..Len(b) : Classify(SubSeq(b, 1, k)) = "incomplete"
(* C13: the number is a function of the frame only *)
NumStable == Classify(b) = "ok" => \A s \in Strings(MaxSfx) : Num(b \o s) = Num(FrameOf(b))
(* the named deviation (D1) breaks it -- used by NEG_C13.cfg *)
NumFromSliceLenStable == Classify(b) = "ok" =>
            \A s \in Strings(MaxSfx) : NumFromSliceLen(b \o s) = NumFromSliceLen(FrameOf(b))
Inv == Outcome /\ OkFits /\ Stable /\ IncompleteIsPrefixClosed /\ NumStable
=============================================================================
