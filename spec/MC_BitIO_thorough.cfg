CONSTANTS BufLen = 4 Carrier_ = 9 MaxW = 9 Backgrounds = {0, 255, 165}
INIT SeedInit
NEXT SeedNext
INVARIANT Inv
CHECK_DEADLOCK FALSE
