CONSTANTS Profile = "real" ToyA = 0 MaxPieces = 5 MaxSteps = 60
INIT Init
NEXT Next
INVARIANT Emit
INVARIANT GenChunkInv
CHECK_DEADLOCK FALSE
