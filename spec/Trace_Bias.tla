------------------------------ MODULE Trace_Bias ------------------------------
(* Trace validation for C16: bias lists keep every entry or report an error.   *)
EXTENDS BiasList, Json, IOUtils, TLC

Rec == ndJsonDeserialize(IOEnv.TRACE)
VARIABLE l
IsEvent(e) == l <= Len(Rec) /\ Rec[l].ev = e /\ l' = l + 1

(* entries_in: <<sat, band, attr, k, f32bits>>;  entries_out: <<sat, band, attr, f32bits>> *)
In4(r) == [k \in 1..Len(r.entries_in) |-> <<r.entries_in[k][1], r.entries_in[k][2], r.entries_in[k][3], r.entries_in[k][4]>>]
InObs(r, es) == [k \in 1..Len(es) |-> LET j == CHOOSE j \in 1..Len(r.entries_in) :
                                                  <<r.entries_in[j][1], r.entries_in[j][2], r.entries_in[j][3], r.entries_in[j][4]>> = es[k]
                                      IN <<r.entries_in[j][1], r.entries_in[j][2], r.entries_in[j][3], r.entries_in[j][5]>>]
IsErr(out) == Len(out) > 4 /\ SubSeq(out, 1, 4) = "err:"
AllRecognised(num, es) == \A k \in 1..Len(es) : Code(num, es[k]) >= 0
CountIn(seq, x) == Cardinality({i \in 1..Len(seq) : seq[i] = x})
SameBag(a, b) == Len(a) = Len(b) /\ \A i \in 1..Len(a) : CountIn(a, a[i]) = CountIn(b, a[i])
Prefix(a, b) == Len(a) <= Len(b) /\ SubSeq(b, 1, Len(a)) = a

BiasOk(r) ==
    LET es == In4(r)
        num == r.number IN
    /\ r.out = "ok" \/ IsErr(r.out)                                     \* never a panic
    /\ (r.out = "ok" /\ r.dec = "typed") => Len(r.entries_out) <= Cap    \* never more entries than the capacity
    /\ Pre(num, es) =>                                                  \* the property's precondition
         /\ MustErr(num, es) => IsErr(r.out)                            \* a count that does not fit its field is an error
         /\ r.out = "ok" =>
              /\ ~MustErr(num, es)
              \* bit-exact list on the wire (one group per satellite), followed only by zero padding to the byte boundary
              /\ OneGroupEach(num, es) =>
                   LET enc == Enc(num, es) IN
                   /\ Prefix(enc, r.listbits)
                   /\ Len(r.listbits) - Len(enc) < 8
                   /\ AllZero(SubSeq(r.listbits, Len(enc) + 1, Len(r.listbits)))
              \* decoding returns exactly the same entries (bias bit patterns included), grouped by ascending satellite
              /\ r.dec = "typed"
              /\ r.entries_out = InObs(r, Regrouped(num, es))

(* "... or lost to a count field that wrapped": more than 31 entries for one satellite (necessarily with repeated signals) do *)
(* not fit the 5-bit per-satellite count, however they are spread over the list.  The code answers with an error; an encoder  *)
(* that wrote several groups for the satellite would also do; a frame from which entries have disappeared would not.         *)
Over31Ok(r) ==
    LET es == In4(r)
        num == r.number IN
    (num # 1230 /\ AllRecognised(num, es) /\ ~OneGroupEach(num, es) /\ ~MustErr(num, es) /\ r.out = "ok") =>
        (r.dec = "typed" /\ SameBag(r.entries_out, InObs(r, es)))

TraceBias == IsEvent("Bias") /\ BiasOk(Rec[l]) = TRUE /\ Over31Ok(Rec[l]) = TRUE
Init == l = 1
Next == TraceBias
Explain(r) == [pre |-> Pre(r.number, In4(r)), must_err |-> MustErr(r.number, In4(r)), out |-> r.out, class |-> r.class,
               rule |-> "Pre => (MustErr => error) and (ok => wire bits = Enc(entries), decode = entries regrouped by ascending satellite)"]
Accepted == LET d == TLCGet("stats").diameter IN
            IF d - 1 = Len(Rec) THEN TRUE
            ELSE /\ PrintT(<<"UNMATCHED", d, ToJson(Explain(Rec[d]))>>)
                 /\ FALSE
=============================================================================
