CONSTANTS Profile = "real" ToyA = 0 Lengths = {0, 1, 2, 3, 4, 19, 254, 255, 256, 511, 512, 1022, 1023}
INIT Init
NEXT Next
CHECK_DEADLOCK FALSE
